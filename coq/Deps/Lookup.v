(* Deps/Lookup.v — executable model of dependency() lookups (C10).

   Transcribes mesonbuild/interpreter/dependencyfallbacks.py (whole file),
   the parts of interpreter.py it calls (func_dependency :1930-1975,
   do_subproject :943-1037, func_subproject :902-917),
   mesonmain.py:355-413 (meson.override_dependency), wrap.py:529-542
   (find_dep_provider / get_varname) and dependencies/detect.py:95-171 +
   base.py:477-510 (find_external_dependency with one detection method and its
   version check).  No proofs in this file.

   Abstractions (all visible in the types below):
   * the dependency identifier (detect.py:47-79) is the pair (name, static): every other
     identifying keyword (modules, method, ...) keeps its default.  An identifier is
     written as the name with one leading tag character (ident / base below), so that
     the override table, the dependency cache and the holder's name list are keyed by it;
   * one machine (host); `required` is a boolean (feature options not modelled);
   * the system is a table  name -> version  (pkg-config files in a private
     PKG_CONFIG_LIBDIR); a dependency object is  NotFound | Found kind version;
   * a subproject is straight-line: it either fails to configure, or performs a
     list of meson.override_dependency calls and defines variables. *)
From MV Require Import Base.Strs Version.Model.
Open Scope N_scope.

(* ------------------------------------------------------------------ data *)
Inductive dkind := KSystem | KInternal.               (* type_name(): pkgconfig | internal *)
Inductive dep := NotFound | Found (k : dkind) (v : str).

Definition dep_found (d : dep) : bool := match d with Found _ _ => true | NotFound => false end.

Inductive wrapmode := WMdefault | WMnofallback | WMnodownload | WMforcefallback | WMnopromote.

Inductive dlib := DShared | DStatic | DBoth.            (* default_library *)

Record opts := mkOpts {
  o_wrap_mode : wrapmode; o_fff : list str;              (* wrap_mode, force_fallback_for *)
  o_deflib : dlib;                                       (* -Ddefault_library *)
  o_subdl : list (str * dlib) }.                         (* -D<subproject>:default_library *)

(* identifiers: (name, static) *)
Definition tag (s : option bool) : char :=
  match s with None => 0 | Some true => 1 | Some false => 2 end.
Definition ident (s : option bool) (n : str) : str := tag s :: n.
Definition base (k : str) : str := match k with _ :: n => n | [] => [] end.

(* a variable of a configured subproject: a dependency object or something else *)
Inductive var := VDep (d : dep) | VOther.

Record subdef := mkSub {
  sd_fails : bool;                       (* the build file ends in error() *)
  sd_overrides : list (str * option bool * dep);   (* meson.override_dependency(name, dep, static: s), in order *)
  sd_vars : list (str * var) }.

(* PackageDefinition.provided_deps of one wrap file / bare directory, after
   __init__ (own lower-cased name -> None) and parse_provide_section. *)
Record wrapinfo := mkWrap { wi_name : str; wi_provided : list (str * option str) }.

Record world := mkWorld {
  w_sys : list (str * str);              (* pkg-config name -> version *)
  w_wraps : list wrapinfo;               (* Resolver.wraps *)
  w_subs : list (str * subdef) }.        (* subprojects whose directory resolves *)

Record state := mkState {
  s_over : list (str * (dep * bool));    (* build.dependency_overrides: identifier -> (dep, explicit) *)
  s_cache : list (str * str);            (* coredata.deps: found system deps, identifier -> version *)
  s_subs : list (str * bool) }.          (* interpreter.subprojects: name -> found() *)

Definition st0 : state := mkState [] [] [].

Record kwargs := mkKw {
  k_required : bool;
  k_version : list str;
  k_allow : option bool;                 (* allow_fallback *)
  k_fallback : option (list str);        (* fallback (after stringlistify) *)
  k_static : option bool;                (* static *)
  k_deflib : option dlib }.              (* default_options: ['default_library=...'] *)

Inductive outcome := OFound (d : dep) | ONotFound | OErr.

(* ------------------------------------------------------------------ helpers *)
Fixpoint assoc {A : Type} (k : str) (l : list (str * A)) : option A :=
  match l with
  | [] => None
  | (k', v) :: r => if str_eqb k k' then Some v else assoc k r
  end.

(* dict[k] = v : replace in place or append *)
Fixpoint assoc_put {A : Type} (k : str) (v : A) (l : list (str * A)) : list (str * A) :=
  match l with
  | [] => [(k, v)]
  | (k', v') :: r => if str_eqb k k' then (k, v) :: r else (k', v') :: assoc_put k v r
  end.

Definition is_some {A : Type} (o : option A) : bool := match o with Some _ => true | None => false end.
Definition is_nil {A : Type} (l : list A) : bool := match l with [] => true | _ => false end.

Definition lower_c (c : char) : char := if is_upper c then c + 32 else c.
Definition lower (s : str) : str := map lower_c s.

Definition s_undefined : str := s2l "undefined".

(* dependencyfallbacks.py:294-298 *)
Definition check_version (wanted : list str) (found : str) : bool :=
  match wanted with
  | [] => true
  | _ => negb (str_eqb found s_undefined || negb (compare_many_ok found wanted))
  end.

(* dependencies/base.py:477-510 : ExternalDependency._check_version *)
Definition sys_check (wanted : list str) (v : str) : bool :=
  match wanted with
  | [] => true
  | _ => match v with [] => false | _ => compare_many_ok v wanted end
  end.

(* dependencyfallbacks.py:139-143 *)
Definition get_subproject (st : state) (subp : str) : bool :=
  match assoc subp (s_subs st) with Some true => true | _ => false end.

(* wrap.py:529-538 (wrapdb.json absent) : first wrap whose provided_deps has the lower-cased name *)
Fixpoint find_provider_in (ws : list wrapinfo) (lname : str) : option (str * option str) :=
  match ws with
  | [] => None
  | w :: r => match assoc lname (wi_provided w) with
              | Some v => Some (wi_name w, v)
              | None => find_provider_in r lname
              end
  end.
Definition find_dep_provider (w : world) (name : str) : option (str * option str) :=
  find_provider_in (w_wraps w) (lower name).

Fixpoint find_wrap (ws : list wrapinfo) (subp : str) : option wrapinfo :=
  match ws with
  | [] => None
  | w :: r => if str_eqb subp (wi_name w) then Some w else find_wrap r subp
  end.
(* wrap.py:540-542 *)
Definition get_varname (w : world) (subp depname : str) : option str :=
  match find_wrap (w_wraps w) subp with
  | Some wi => match assoc depname (wi_provided wi) with Some v => v | None => None end
  | None => None
  end.

Definition truthy (o : option str) : bool := match o with Some (_ :: _) => true | _ => false end.

(* ------------------------------------------------------------------ the holder *)
Record holder := mkHolder {
  h_names : list str;                    (* the identifiers of the names (ident static name) *)
  h_allow : option bool;
  h_spname : option str;                 (* subproject_name *)
  h_spvar : option str;                  (* subproject_varname *)
  h_force : bool;                        (* forcefallback *)
  h_nofb : bool;                         (* nofallback *)
  h_dl : dlib }.                         (* default_library the fallback subproject is configured with *)

(* dependencyfallbacks.py:215-256 *)
Definition get_cached_dep (h : holder) (st : state) (name : str) (wanted : list str) : option dep :=
  match assoc name (s_over st) with
  | Some (d, _) =>                                          (* :225 *)
      match d with
      | NotFound => Some NotFound                           (* :232-234 *)
      | Found k v => if check_version wanted v then Some (Found k v)   (* :254-255 *)
                     else Some NotFound                      (* :247-251 *)
      end
  | None =>
      if h_force h && is_some (h_spname h) then None        (* :235-236 *)
      else match assoc name (s_cache st) with               (* :238 *)
           | Some v => if check_version wanted v then Some (Found KSystem v)
                       else None                             (* :243-246 *)
           | None => None
           end
  end.

(* first name whose _get_cached_dep is not None (:159-162) *)
Fixpoint first_cached (h : holder) (st : state) (names : list str) (wanted : list str) : option dep :=
  match names with
  | [] => None
  | n :: r => match get_cached_dep h st n wanted with
              | Some d => Some d
              | None => first_cached h st r wanted
              end
  end.

(* first truthy wrap_resolver.get_varname(subp, name) (:176-179) *)
Fixpoint first_varname (w : world) (subp : str) (names : list str) : option str :=
  match names with
  | [] => None
  | n :: r => let v := get_varname w subp (base n) in
              if truthy v then v else first_varname w subp r
  end.

(* dependencyfallbacks.py:145-200 *)
Definition get_subproject_dep (w : world) (h : holder) (st : state) (subp : str)
           (varname : option str) (wanted : list str) : option dep :=
  if negb (get_subproject st subp) then None                 (* :147-150 *)
  else match first_cached h st (h_names h) wanted with
  | Some d => Some d                                         (* :166-168 *)
  | None =>
      let varname := if truthy varname then varname else first_varname w subp (h_names h) in
      match varname with
      | Some (c :: vn) =>
          match assoc subp (w_subs w) with
          | Some sd =>
              match assoc (c :: vn) (sd_vars sd) with
              | Some (VDep (Found k v)) =>
                  if check_version wanted v then Some (Found k v)   (* :198-200 *)
                  else Some NotFound                          (* :192-196 *)
              | Some (VDep NotFound) => Some NotFound         (* :186-188 *)
              | Some VOther => Some NotFound                  (* :263-266, :185 *)
              | None => Some NotFound                         (* :261-262 *)
              end
          | None => Some NotFound
          end
      | _ => Some NotFound                                    (* :180-183 *)
      end
  end.

Inductive res (A : Type) := Ok (a : A) | Err.
Arguments Ok {A} a.
Arguments Err {A}.

(* mesonmain.py:397-413 : one non-permissive _override_dependency_impl on an identifier *)
Definition add_override (over : list (str * (dep * bool))) (key : str) (d : dep) (explicit : bool)
  : res (list (str * (dep * bool))) :=
  match key with
  | [] => Err
  | _ => match assoc key over with
         | Some _ => Err                                    (* :406-411 *)
         | None => Ok (over ++ [(key, (d, explicit))])
         end
  end.

(* mesonmain.py:355-395 : meson.override_dependency(name, dep, static: s) in a project whose
   default_library is dl *)
Definition override_dep (over : list (str * (dep * bool))) (name : str) (static : option bool)
           (dl : dlib) (d : dep) : res (list (str * (dep * bool))) :=
  match name with
  | [] => Err                                               (* :357-358 *)
  | _ =>
    match static with
    | None =>                                               (* :374-385 *)
        match add_override over (ident None name) d true with
        | Err => Err
        | Ok o1 =>
            match dl with
            | DStatic => add_override o1 (ident (Some true) name) d true
            | DShared => add_override o1 (ident (Some false) name) d true
            | DBoth => match add_override o1 (ident (Some true) name) d true with
                       | Err => Err
                       | Ok o2 => add_override o2 (ident (Some false) name) d true
                       end
            end
        end
    | Some b =>                                             (* :386-395 *)
        let o1 := match assoc (ident None name) over with   (* permissive *)
                  | Some _ => over
                  | None => over ++ [(ident None name, (d, true))]
                  end in
        add_override o1 (ident (Some b) name) d true
    end
  end.

Fixpoint add_overrides (over : list (str * (dep * bool))) (dl : dlib) (l : list (str * option bool * dep))
  : res (list (str * (dep * bool))) :=
  match l with
  | [] => Ok over
  | (n, s, d) :: r => match override_dep over n s dl d with
                      | Ok over' => add_overrides over' dl r
                      | Err => Err
                      end
  end.

(* the default_library a subproject is configured with: forced by `static:` on the
   dependency() call (interpreter.py:955-963, dependencyfallbacks.py:124-131), else
   -D<sub>:default_library, else default_options of the call, else the global value *)
Definition eff_dl (o : opts) (subp : str) (static : option bool) (callopt : option dlib) : dlib :=
  match static with
  | Some true => DStatic
  | Some false => DShared
  | None => match assoc subp (o_subdl o) with
            | Some x => x
            | None => match callopt with Some x => x | None => o_deflib o end
            end
  end.

(* interpreter.py:943-1037 with version=[] : returns the new state, or Err when an
   exception propagates.  A subproject that does not resolve or fails is recorded as
   not found unless required. *)
Definition do_subproject (w : world) (st : state) (subp : str) (required : bool) (dl : dlib) : res state :=
  match subp with
  | [] => Err                                               (* :965-966 *)
  | _ =>
    match assoc subp (s_subs st) with
    | Some found => if required && negb found then Err else Ok st   (* :980-989 *)
    | None =>
        let disabled := mkState (s_over st) (s_cache st) (s_subs st ++ [(subp, false)]) in
        match assoc subp (w_subs w) with
        | None => if required then Err else Ok disabled       (* :992-1005 *)
        | Some sd =>
            match (if sd_fails sd then Err else add_overrides (s_over st) dl (sd_overrides sd)) with
            | Err => if required then Err else Ok disabled    (* :1029-1037 *)
            | Ok over' => Ok (mkState over' (s_cache st) (s_subs st ++ [(subp, true)]))   (* :1097-1106 *)
            end
        end
    end
  end.

(* the four kinds of candidates of _get_candidates (:300-315) *)
Inductive cand := CCache (n : str) | CExisting (s : str) | CSystem (n : str) | CSub (s : str).

Definition candidates (h : holder) : list cand :=
  map CCache (h_names h)                                                       (* :303-304 *)
  ++ (if truthy (h_spname h) then match h_spname h with Some s => [CExisting s] | None => [] end else [])   (* :306-307 *)
  ++ (if negb (h_force h) || negb (truthy (h_spname h)) then map CSystem (h_names h) else [])               (* :309-311 *)
  ++ (if truthy (h_spname h) then match h_spname h with Some s => [CSub s] | None => [] end else []).       (* :313-314 *)

(* one candidate; req = kwargs['required'] = required and (i == last) *)
Definition run_cand (w : world) (h : holder) (wanted : list str) (c : cand) (req : bool) (st : state)
  : res (option dep) * state :=
  match c with
  | CCache n => (Ok (get_cached_dep h st n wanted), st)                        (* :87-91 *)
  | CExisting s =>                                                             (* :106-110 *)
      (Ok (if get_subproject st s then get_subproject_dep w h st s (h_spvar h) wanted else None), st)
  | CSystem n =>                                                               (* :93-104, detect.py:95-171 *)
      match assoc (base n) (w_sys w) with
      | Some v => if sys_check wanted v
                  then (Ok (Some (Found KSystem v)),
                        mkState (s_over st) (assoc_put n v (s_cache st)) (s_subs st))
                  else if req then (Err, st) else (Ok None, st)
      | None => if req then (Err, st) else (Ok None, st)
      end
  | CSub s =>                                                                  (* :112-137 *)
      if negb (h_force h) && h_nofb h then (Ok None, st)                       (* :116-119 *)
      else match do_subproject w st s req (h_dl h) with
           | Err => (Err, st)
           | Ok st' => (Ok (get_subproject_dep w h st' s (h_spvar h) wanted), st')
           end
  end.

(* :374-378 : implicit overrides for every name that has none *)
Fixpoint register (over : list (str * (dep * bool))) (names : list str) (d : dep) : list (str * (dep * bool)) :=
  match names with
  | [] => over
  | n :: r => register (match assoc n over with Some _ => over | None => over ++ [(n, (d, false))] end) r d
  end.

(* the candidate loop (:357-388) *)
Fixpoint try_cands (w : world) (h : holder) (wanted : list str) (required : bool)
         (cs : list cand) (st : state) : outcome * state :=
  match cs with
  | [] => (ONotFound, st)                                                      (* :388 *)
  | c :: rest =>
      let last := is_nil rest in
      match run_cand w h wanted c (required && last) st with
      | (Err, st') => (OErr, st')
      | (Ok (Some (Found k v)), st') =>                                        (* :371-379 *)
          (OFound (Found k v), mkState (register (s_over st') (h_names h) (Found k v)) (s_cache st') (s_subs st'))
      | (Ok (Some NotFound), st') => if required then (OErr, st') else (ONotFound, st')   (* :380-387 *)
      | (Ok None, st') => if required && last then (OErr, st') else try_cands w h wanted required rest st'
      end
  end.

(* names validation, DependencyFallbacksHolder.__init__ :51-59 *)
Definition bad_name (n : str) : bool := memb 60 n || memb 62 n || memb 61 n.    (* < > = *)
Fixpoint names_ok (seen names : list str) : bool :=
  match names with
  | [] => true
  | n :: r => negb (is_nil n) && negb (bad_name n) && negb (str_mem n seen) && names_ok (n :: seen) r
  end.

(* implicit provider (:342-349): first name with a provider decides *)
Fixpoint implicit_provider (w : world) (o : opts) (st : state) (allow : option bool) (required force : bool)
         (names : list str) : bool * option (str * option str) :=
  match names with
  | [] => (force, None)
  | n :: r =>
      match find_dep_provider w n with
      | Some (s :: sp, var) =>
          let subp := s :: sp in
          let force' := force || str_mem subp (o_fff o) in                    (* :346 *)
          if force' || (match allow with Some true => true | _ => false end) || required
             || get_subproject st subp                                         (* :347 *)
          then (force', Some (subp, var)) else (force', None)
      | _ => implicit_provider w o st allow required force r
      end
  end.

Definition is_forcefallback (m : wrapmode) : bool := match m with WMforcefallback => true | _ => false end.
Definition is_nofallback (m : wrapmode) : bool := match m with WMnofallback => true | _ => false end.

(* func_dependency (interpreter.py:1930-1975) + set_fallback (:62-80) + lookup (:317-388) *)
Definition lookup (w : world) (o : opts) (st : state) (names0 : list str) (kw : kwargs) : outcome * state :=
  let names := filter (fun n => negb (is_nil n)) names0 in                    (* interpreter.py:1932 *)
  if negb (names_ok [] names) then (OErr, st) else
  (* set_fallback *)
  let fb : res (option bool * option str * option str) :=
    match k_fallback kw with
    | None => Ok (k_allow kw, None, None)
    | Some l =>
        if is_some (k_allow kw) then Err                                       (* :66-67 *)
        else match l with
             | [] => Ok (Some false, None, None)                               (* :69-72 *)
             | [s] => Ok (None, Some s, None)                                  (* :73-75 *)
             | [s; v] => Ok (None, Some s, Some v)                             (* :76-77 *)
             | _ => Err                                                        (* :78-79 *)
             end
    end in
  match fb with
  | Err => (OErr, st)
  | Ok (allow, sp, spvar) =>
      let required := k_required kw in
      let nofb := is_nofallback (o_wrap_mode o) in                             (* :330 *)
      let force := is_forcefallback (o_wrap_mode o)                            (* :331-334 *)
                   || existsb (fun n => str_mem n (o_fff o)) names
                   || (match sp with Some s => str_mem s (o_fff o) | None => false end) in
      let '(force, sp, spvar) :=
        if negb (truthy sp) && negb (match allow with Some false => true | _ => false end)   (* :342 *)
        then match implicit_provider w o st allow required force names with
             | (force', Some (s, v)) => (force', Some s, v)
             | (force', None) => (force', sp, spvar)
             end
        else (force, sp, spvar) in
      let dl := match sp with Some s => eff_dl o s (k_static kw) (k_deflib kw) | None => o_deflib o end in
      let h := mkHolder (map (ident (k_static kw)) names) allow sp spvar force nofb dl in
      let cs := candidates h in
      if is_nil cs && required then (OErr, st)                                 (* :354-355 *)
      else try_cands w h (k_version kw) required cs st
  end.

(* ------------------------------------------------------------------ build files *)
Inductive op :=
| OpOverride (n : str) (static : option bool) (d : dep)   (* meson.override_dependency(n, d, static: s) in the main project *)
| OpSubproject (s : str) (required : bool) (dl : option dlib)   (* subproject(s, required: r, default_options: ...) *)
| OpLookup (names : list str) (kw : kwargs).  (* d = dependency(names..., kwargs); message(d...) *)

(* runs the build file; returns what each dependency() call printed, and whether
   configuration succeeded *)
Fixpoint run_ops (w : world) (o : opts) (st : state) (ops : list op) : list outcome * bool :=
  match ops with
  | [] => ([], true)
  | OpOverride n sk d :: r =>
      match override_dep (s_over st) n sk (o_deflib o) d with
      | Ok over' => run_ops w o (mkState over' (s_cache st) (s_subs st)) r
      | Err => ([], false)
      end
  | OpSubproject s req dl :: r =>
      match do_subproject w st s req (eff_dl o s None dl) with
      | Ok st' => run_ops w o st' r
      | Err => ([], false)
      end
  | OpLookup names kw :: r =>
      match lookup w o st names kw with
      | (OErr, _) => ([], false)
      | (out, st') => let '(outs, ok) := run_ops w o st' r in (out :: outs, ok)
      end
  end.
