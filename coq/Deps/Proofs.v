(* Deps/Proofs.v — theorems about the C10 models. *)
From Coq Require Import Lia.
From MV Require Import Base.Strs Base.LexFacts Version.Model Deps.Lookup Deps.Policy Deps.Wrap.
Open Scope N_scope.

(* ================================================================== lookups *)

(* coredata.deps only holds dependencies for which an (implicit) override was
   registered in the same configuration: true from a fresh build directory on. *)
Definition cache_covered (st : state) : Prop :=
  forall n, assoc n (s_over st) = None -> assoc n (s_cache st) = None.

(* an explicit fallback names a subproject *)
Definition fallback_named (kw : kwargs) : Prop :=
  match k_fallback kw with Some ([] :: _) => False | _ => True end.

Lemma cached_none h st n wanted :
  cache_covered st -> assoc n (s_over st) = None -> get_cached_dep h st n wanted = None.
Proof.
  intros Hc Ho. unfold get_cached_dep. rewrite Ho, (Hc n Ho).
  destruct (h_force h && is_some (h_spname h)); reflexivity.
Qed.

Lemma cached_some h st n wanted d e :
  assoc n (s_over st) = Some (d, e) ->
  get_cached_dep h st n wanted =
  Some (match d with Found k v => if check_version wanted v then Found k v else NotFound | NotFound => NotFound end).
Proof.
  intros Ho. unfold get_cached_dep. rewrite Ho. destruct d as [|k v]; [reflexivity|].
  destruct (check_version wanted v); reflexivity.
Qed.

Lemma vet_found wanted required d k v :
  vet wanted required d = OFound (Found k v) -> d = Found k v /\ check_version wanted v = true.
Proof.
  destruct d as [|k' v']; cbn; [destruct required; discriminate|].
  destruct (check_version wanted v') eqn:E; [|destruct required; discriminate].
  intros H; inversion H; subst; auto.
Qed.

Definition vetd (wanted : list str) (d : dep) : dep :=
  match d with Found k v => if check_version wanted v then Found k v else NotFound | NotFound => NotFound end.

Lemma vet_vetd wanted required d :
  vet wanted required d = match vetd wanted d with Found k v => OFound (Found k v) | NotFound => fail required end.
Proof. destruct d as [|k v]; cbn; [reflexivity|]. destruct (check_version wanted v); reflexivity. Qed.

Lemma gsd_offer w h st s var wanted sk n :
  h_names h = [ident sk n] -> cache_covered st -> get_subproject st s = true ->
  get_subproject_dep w h st s var wanted = Some (vetd wanted (sub_offer w st s var sk n)).
Proof.
  intros Hn Hc Hs. unfold get_subproject_dep, sub_offer. rewrite Hs, Hn. cbn [negb first_cached first_varname].
  change (base (ident sk n)) with n.
  destruct (assoc (ident sk n) (s_over st)) as [[d e]|] eqn:Ho.
  - rewrite (cached_some h st _ wanted d e Ho). reflexivity.
  - rewrite (cached_none h st _ wanted Hc Ho).
    destruct (if truthy var then var else if truthy (get_varname w s n) then get_varname w s n else None) as [[|c vn]|];
      try reflexivity.
    destruct (assoc s (w_subs w)) as [sd|]; [|reflexivity].
    destruct (assoc (c :: vn) (sd_vars sd)) as [[[|k v]|]|]; try reflexivity.
    cbn. destruct (check_version wanted v); reflexivity.
Qed.

Lemma assoc_app_none {A} m (l : list (str * A)) k v :
  assoc m (l ++ [(k, v)]) = None -> assoc m l = None.
Proof.
  induction l as [|[k' v'] r IH]; cbn; [reflexivity|].
  destruct (str_eqb m k'); [discriminate|]. exact IH.
Qed.

Lemma add_override_grows over n d e over' m :
  add_override over n d e = Ok over' -> assoc m over' = None -> assoc m over = None.
Proof.
  unfold add_override. destruct n as [|c n']; [discriminate|].
  destruct (assoc (c :: n') over) eqn:E; [discriminate|]. intros H; inversion H; subst; clear H.
  apply assoc_app_none.
Qed.

Lemma override_dep_grows over n sk dl d over' m :
  override_dep over n sk dl d = Ok over' -> assoc m over' = None -> assoc m over = None.
Proof.
  unfold override_dep. destruct n as [|c n']; [discriminate|].
  destruct sk as [b|].
  - intros H Hm. apply (add_override_grows _ _ _ _ _ _ H) in Hm.
    destruct (assoc (ident None (c :: n')) over); [exact Hm|]. eapply assoc_app_none; eauto.
  - destruct (add_override over (ident None (c :: n')) d true) as [o1|] eqn:E1; [|discriminate].
    destruct dl.
    + intros H Hm. eapply add_override_grows; eauto. eapply add_override_grows; eauto.
    + intros H Hm. eapply add_override_grows; eauto. eapply add_override_grows; eauto.
    + destruct (add_override o1 (ident (Some true) (c :: n')) d true) as [o2|] eqn:E2; [|discriminate].
      intros H Hm. eapply add_override_grows; eauto. eapply add_override_grows; eauto. eapply add_override_grows; eauto.
Qed.

Lemma add_overrides_grows dl l : forall over over' m,
  add_overrides over dl l = Ok over' -> assoc m over' = None -> assoc m over = None.
Proof.
  induction l as [|[[n sk] d] r IH]; cbn; intros over over' m H Hn.
  - inversion H; subst; assumption.
  - destruct (override_dep over n sk dl d) as [o1|] eqn:E; [|discriminate].
    eapply override_dep_grows; eauto.
Qed.

Lemma do_subproject_covered w st s req dl st' :
  do_subproject w st s req dl = Ok st' -> cache_covered st -> cache_covered st'.
Proof.
  unfold do_subproject. destruct s as [|c s']; [discriminate|].
  destruct (assoc (c :: s') (s_subs st)) as [f|].
  { destruct (req && negb f); [discriminate|]. intros H; inversion H; subst; auto. }
  destruct (assoc (c :: s') (w_subs w)) as [sd|].
  2:{ destruct req; [discriminate|]. intros H; inversion H; subst. intros Hc n; cbn; auto. }
  destruct (if sd_fails sd then Err else add_overrides (s_over st) dl (sd_overrides sd)) as [ov|] eqn:E.
  2:{ destruct req; [discriminate|]. intros H; inversion H; subst. intros Hc n; cbn; auto. }
  intros H; inversion H; subst; clear H. intros Hc n; cbn. intros Hn. apply Hc.
  destruct (sd_fails sd); [discriminate|]. eapply add_overrides_grows; eauto.
Qed.

Lemma names_ok_single n : names_ok [] [n] = negb (is_nil n) && negb (bad_name n).
Proof. cbn. rewrite !andb_true_r. reflexivity. Qed.

Arguments bad_name : simpl never.
Arguments do_subproject : simpl never.
Arguments get_subproject_dep : simpl never.
Arguments get_cached_dep : simpl never.
Arguments check_version : simpl never.
Arguments sys_check : simpl never.
Arguments str_mem : simpl never.
Arguments find_dep_provider : simpl never.

Lemma try_cands_cons w h wanted required c rest st :
  try_cands w h wanted required (c :: rest) st =
  match run_cand w h wanted c (required && is_nil rest) st with
  | (Err, st') => (OErr, st')
  | (Ok (Some (Found k v)), st') =>
      (OFound (Found k v), mkState (register (s_over st') (h_names h) (Found k v)) (s_cache st') (s_subs st'))
  | (Ok (Some NotFound), st') => if required then (OErr, st') else (ONotFound, st')
  | (Ok None, st') => if required && is_nil rest then (OErr, st') else try_cands w h wanted required rest st'
  end.
Proof. reflexivity. Qed.

(* the candidate loop with a fallback subproject s *)
Lemma cands_sub w st sk n wanted required allow s var force nofb dl :
  cache_covered st -> truthy (Some s) = true ->
  let h := mkHolder [ident sk n] allow (Some s) var force nofb dl in
  fst (try_cands w h wanted required (candidates h) st) =
  match assoc (ident sk n) (s_over st) with
  | Some (d, _) => vet wanted required d
  | None =>
      if get_subproject st s then vet wanted required (sub_offer w st s var sk n)
      else if force then use_subproject w st s var sk n wanted required dl
      else match system_dep w n wanted with
           | Some d => OFound d
           | None => if nofb then fail required else use_subproject w st s var sk n wanted required dl
           end
  end.
Proof.
  intros Hc Ht h. set (k := ident sk n) in *.
  assert (Hsub : forall st0, cache_covered st0 ->
     fst (try_cands w h wanted required [CSub s] st0) =
     if negb force && nofb then fail required else use_subproject w st0 s var sk n wanted required dl).
  { intros st0 Hc0. cbn [try_cands run_cand is_nil h h_force h_nofb h_spvar h_dl]. rewrite andb_true_r.
    destruct (negb force && nofb).
    - cbn. destruct required; reflexivity.
    - unfold use_subproject. destruct (do_subproject w st0 s required dl) as [st'|] eqn:Ed; [|reflexivity].
      destruct (get_subproject st' s) eqn:Eg.
      + rewrite (gsd_offer w h st' s var wanted sk n eq_refl (do_subproject_covered _ _ _ _ _ _ Ed Hc0) Eg).
        rewrite vet_vetd. destruct (vetd wanted (sub_offer w st' s var sk n)); [|reflexivity].
        destruct required; reflexivity.
      + unfold get_subproject_dep. rewrite Eg. cbn. destruct required; reflexivity. }
  unfold candidates. cbn [h h_names h_spname h_force map app]. rewrite Ht. fold k.
  destruct (assoc k (s_over st)) as [[d e]|] eqn:Ho.
  { destruct force; cbn [negb orb app]; rewrite try_cands_cons; cbn [run_cand is_nil];
      rewrite (cached_some h st k wanted d e Ho), vet_vetd; fold (vetd wanted d);
      destruct (vetd wanted d); try reflexivity; destruct required; reflexivity. }
  destruct force; cbn [negb orb andb app]; rewrite try_cands_cons; cbn [run_cand is_nil];
    rewrite (cached_none h st k wanted Hc Ho), andb_false_r; rewrite try_cands_cons; cbn [run_cand is_nil h_spvar h].
  - (* forced *)
    destruct (get_subproject st s) eqn:Eg.
    + rewrite (gsd_offer w h st s var wanted sk n eq_refl Hc Eg), vet_vetd.
      destruct (vetd wanted (sub_offer w st s var sk n)); [|reflexivity]. destruct required; reflexivity.
    + rewrite andb_false_r, (Hsub st Hc). reflexivity.
  - destruct (get_subproject st s) eqn:Eg.
    + rewrite (gsd_offer w h st s var wanted sk n eq_refl Hc Eg), vet_vetd.
      destruct (vetd wanted (sub_offer w st s var sk n)); [|reflexivity]. destruct required; reflexivity.
    + rewrite andb_false_r, try_cands_cons. cbn [run_cand is_nil]. rewrite andb_false_r. unfold system_dep.
      unfold k. cbn [base ident].
      destruct (assoc n (w_sys w)) as [v|].
      * destruct (sys_check wanted v); [reflexivity|]. rewrite (Hsub st Hc). reflexivity.
      * rewrite (Hsub st Hc). reflexivity.
Qed.

(* ... and without one *)
Lemma cands_nosub w st sk n wanted required allow var force nofb dl :
  cache_covered st ->
  let h := mkHolder [ident sk n] allow None var force nofb dl in
  fst (try_cands w h wanted required (candidates h) st) =
  match assoc (ident sk n) (s_over st) with
  | Some (d, _) => vet wanted required d
  | None => match system_dep w n wanted with Some d => OFound d | None => fail required end
  end.
Proof.
  intros Hc h. set (k := ident sk n) in *.
  unfold candidates. cbn [h h_names h_spname h_force truthy map app negb]. rewrite orb_true_r.
  cbn [app]. rewrite try_cands_cons. cbn [run_cand is_nil]. fold k.
  destruct (assoc k (s_over st)) as [[d e]|] eqn:Ho.
  { rewrite (cached_some h st k wanted d e Ho), vet_vetd; fold (vetd wanted d).
    destruct (vetd wanted d); try reflexivity; destruct required; reflexivity. }
  rewrite (cached_none h st k wanted Hc Ho), andb_false_r, try_cands_cons. cbn [run_cand is_nil].
  rewrite andb_true_r. unfold system_dep. unfold k. cbn [base ident].
  destruct (assoc n (w_sys w)) as [v|].
  - destruct (sys_check wanted v); [reflexivity|]. destruct required; reflexivity.
  - destruct required; reflexivity.
Qed.

Lemma cands_nonempty h : h_names h <> [] -> is_nil (candidates h) = false.
Proof. unfold candidates. destruct (h_names h); [congruence|]. reflexivity. Qed.

(* lookup = policy: every combination of the flags; names, versions, constraints,
   the system table, wraps, subprojects and the interpreter state are arbitrary *)
Theorem lookup_is_policy w o st n kw :
  n <> [] -> cache_covered st -> fallback_named kw ->
  fst (lookup w o st [n] kw) = policy w o st n kw.
Proof.
  intros Hn Hc Hf. unfold lookup, policy, fallback_of, fallback_named in *.
  assert (Hnil : is_nil n = false) by (destruct n; [congruence|reflexivity]).
  assert (Hfil : filter (fun x : list char => negb (is_nil x)) [n] = [n]) by (cbn; rewrite Hnil; reflexivity).
  rewrite Hfil, names_ok_single, Hnil. cbn [negb andb].
  destruct (bad_name n); [reflexivity|]. cbn [negb].
  destruct kw as [required wanted allow fb sk dlo]. cbn [k_required k_version k_allow k_fallback k_static k_deflib] in *.
  cbn [existsb]. rewrite orb_false_r.
  destruct fb as [l|].
  - (* explicit fallback: *)
    destruct allow as [a|]; cbn [is_some]; [reflexivity|].
    destruct l as [|s [|v [|x r]]]; try reflexivity.
    + (* fallback: [] *)
      cbn [truthy negb andb]. cbv zeta.
      rewrite cands_nonempty by (cbn; congruence). cbn [andb].
      apply (cands_nosub w st sk n wanted required (Some false) None _ _ _ Hc).
    + destruct s as [|c s']; [contradiction|].
      cbn [truthy negb andb]. cbv zeta.
      rewrite cands_nonempty by (cbn; congruence). cbn [andb].
      rewrite (cands_sub w st sk n wanted required None (c :: s') None _ _ _ Hc eq_refl).
      unfold forced. reflexivity.
    + destruct s as [|c s']; [contradiction|].
      cbn [truthy negb andb]. cbv zeta.
      rewrite cands_nonempty by (cbn; congruence). cbn [andb].
      rewrite (cands_sub w st sk n wanted required None (c :: s') (Some v) _ _ _ Hc eq_refl).
      unfold forced. reflexivity.
  - (* no explicit fallback *)
    cbn [truthy negb andb]. rewrite orb_false_r.
    destruct allow as [[|]|].
    + (* allow_fallback: true *)
      cbn [implicit_provider].
      destruct (find_dep_provider w n) as [[[|c s'] var]|]; cbn [negb]; cbv beta iota zeta.
      * rewrite cands_nonempty by (cbn; congruence). cbn [andb].
        apply (cands_nosub w st sk n wanted required (Some true) None _ _ _ Hc).
      * unfold forced. rewrite orb_true_r. cbn [orb]. cbv beta iota zeta.
        rewrite cands_nonempty by (cbn; congruence). cbn [andb].
        rewrite (cands_sub w st sk n wanted required (Some true) (c :: s') var _ _ _ Hc eq_refl).
        reflexivity.
      * rewrite cands_nonempty by (cbn; congruence). cbn [andb].
        apply (cands_nosub w st sk n wanted required (Some true) None _ _ _ Hc).
    + (* allow_fallback: false *)
      cbn [negb]. cbv beta iota zeta. rewrite cands_nonempty by (cbn; congruence). cbn [andb].
      apply (cands_nosub w st sk n wanted required (Some false) None _ _ _ Hc).
    + cbn [implicit_provider].
      destruct (find_dep_provider w n) as [[[|c s'] var]|]; cbn [negb]; cbv beta iota zeta.
      * rewrite cands_nonempty by (cbn; congruence). cbn [andb].
        apply (cands_nosub w st sk n wanted required None None _ _ _ Hc).
      * unfold forced. rewrite orb_false_r.
        destruct (is_forcefallback (o_wrap_mode o) || str_mem n (o_fff o) || str_mem (c :: s') (o_fff o)
                  || required || get_subproject st (c :: s')) eqn:E; cbv beta iota zeta.
        -- rewrite cands_nonempty by (cbn; congruence). cbn [andb].
           rewrite (cands_sub w st sk n wanted required None (c :: s') var _ _ _ Hc eq_refl). reflexivity.
        -- rewrite cands_nonempty by (cbn; congruence). cbn [andb].
           apply (cands_nosub w st sk n wanted required None None _ _ _ Hc).
      * rewrite cands_nonempty by (cbn; congruence). cbn [andb].
        apply (cands_nosub w st sk n wanted required None None _ _ _ Hc).
Qed.

(* ------------------------------------------------------------------ repeated lookups *)
Lemma assoc_app_new {A} n (l : list (str * A)) v :
  assoc n l = None -> assoc n (l ++ [(n, v)]) = Some v.
Proof.
  induction l as [|[k' v'] r IH]; cbn.
  - rewrite str_eqb_refl. reflexivity.
  - destruct (str_eqb n k'); [discriminate|]. exact IH.
Qed.

Lemma assoc_app_some {A} n (l l' : list (str * A)) v :
  assoc n l = Some v -> assoc n (l ++ l') = Some v.
Proof.
  induction l as [|[k' v'] r IH]; cbn; [discriminate|].
  destruct (str_eqb n k'); auto.
Qed.

Lemma register_present over n d x : assoc n over = Some x -> register over [n] d = over.
Proof. intros H. cbn. rewrite H. reflexivity. Qed.

Lemma register_absent over n d : assoc n over = None -> register over [n] d = over ++ [(n, (d, false))].
Proof. intros H. cbn. rewrite H. reflexivity. Qed.

Lemma state_eta st : mkState (s_over st) (s_cache st) (s_subs st) = st.
Proof. destruct st; reflexivity. Qed.

Lemma dsp_disabled w o c s dl :
  s <> [] -> assoc s (s_subs o) = None ->
  do_subproject w (mkState (s_over o) c (s_subs o ++ [(s, false)])) s false dl =
  Ok (mkState (s_over o) c (s_subs o ++ [(s, false)])).
Proof.
  intros Hs Es. unfold do_subproject. destruct s as [|a s']; [congruence|].
  cbn [s_subs]. rewrite assoc_app_new by exact Es. reflexivity.
Qed.

Lemma get_subproject_app st ov ca l x :
  get_subproject st x = true -> get_subproject (mkState ov ca (s_subs st ++ l)) x = true.
Proof.
  unfold get_subproject. cbn [s_subs].
  destruct (assoc x (s_subs st)) as [[|]|] eqn:Ex; try discriminate.
  rewrite (assoc_app_some _ _ _ _ Ex). auto.
Qed.

Lemma dsp_spec w st s req dl st' :
  do_subproject w st s req dl = Ok st' ->
  s_cache st' = s_cache st /\
  (get_subproject st' s = false -> s_over st' = s_over st /\ forall dl', do_subproject w st' s false dl' = Ok st') /\
  (forall x, get_subproject st x = true -> get_subproject st' x = true).
Proof.
  intros H. assert (Hs : s <> []) by (intros ->; discriminate H).
  unfold do_subproject in H. destruct s as [|c s']; [congruence|]. set (s := c :: s') in *.
  destruct (assoc s (s_subs st)) as [f|] eqn:Es.
  { destruct (req && negb f) eqn:E; [discriminate|]. inversion H; subst; clear H.
    split; [reflexivity|split; [|auto]]. intros Hg. unfold get_subproject in Hg. rewrite Es in Hg.
    destruct f; [discriminate|]. split; [reflexivity|]. intros dl'.
    unfold do_subproject. fold s. rewrite Es. reflexivity. }
  assert (Hdis : st' = mkState (s_over st) (s_cache st) (s_subs st ++ [(s, false)]) ->
     s_cache st' = s_cache st /\
     (get_subproject st' s = false -> s_over st' = s_over st /\ forall dl', do_subproject w st' s false dl' = Ok st') /\
     (forall x, get_subproject st x = true -> get_subproject st' x = true)).
  { intros ->. split; [reflexivity|split].
    - intros _. split; [reflexivity|]. intros dl'. apply dsp_disabled; assumption.
    - intros x. apply get_subproject_app. }
  destruct (assoc s (w_subs w)) as [sd|] eqn:Ew.
  2:{ destruct req; [discriminate|]. inversion H; subst; clear H. apply Hdis; reflexivity. }
  destruct (if sd_fails sd then Err else add_overrides (s_over st) dl (sd_overrides sd)) as [ov|] eqn:E.
  2:{ destruct req; [discriminate|]. inversion H; subst; clear H. apply Hdis; reflexivity. }
  inversion H; subst; clear H. cbn [s_cache s_over]. split; [reflexivity|split].
  - unfold get_subproject. cbn [s_subs]. rewrite assoc_app_new by exact Es. discriminate.
  - intros x. apply get_subproject_app.
Qed.

(* system versions are never the literal string that marks an unknown version *)
Definition sys_defined (w : world) : Prop :=
  forall n v, assoc n (w_sys w) = Some v -> v <> s_undefined.

Lemma sys_check_version wanted v :
  v <> s_undefined -> sys_check wanted v = true -> check_version wanted v = true.
Proof.
  intros Hv. unfold sys_check, check_version. destruct wanted as [|c r]; [reflexivity|].
  destruct v as [|a v']; [discriminate|]. intros ->. rewrite orb_false_r.
  destruct (str_eqb (a :: v') s_undefined) eqn:E; [|reflexivity].
  apply str_eqb_eq in E. congruence.
Qed.

(* ------------------------------------------------------------------ reachable states *)
Lemma assoc_put_other {A} k m (v : A) l : str_eqb m k = false -> assoc m (assoc_put k v l) = assoc m l.
Proof.
  intros Hk. induction l as [|[k' v'] r IH]; cbn.
  - rewrite Hk. reflexivity.
  - destruct (str_eqb k k') eqn:E.
    + cbn. apply str_eqb_eq in E. subst k'. rewrite Hk. reflexivity.
    + cbn. destruct (str_eqb m k'); auto.
Qed.

Lemma register_grows names : forall over d m, assoc m (register over names d) = None -> assoc m over = None.
Proof.
  induction names as [|n r IH]; cbn; intros over d m H; [exact H|].
  apply IH in H. destruct (assoc n over); [exact H|]. eapply assoc_app_none; eauto.
Qed.

Lemma register_covers names : forall over d n, In n names -> assoc n (register over names d) <> None.
Proof.
  induction names as [|a r IH]; cbn; intros over d n Hin; [contradiction|].
  destruct Hin as [->|Hin]; [|apply IH; exact Hin].
  intros H. apply register_grows in H.
  destruct (assoc n over) eqn:E; [congruence|]. rewrite (assoc_app_new _ _ _ E) in H. discriminate.
Qed.

Definition cands_from (h : holder) (cs : list cand) : Prop :=
  forall n, In (CSystem n) cs -> In n (h_names h).

Lemma try_cands_covered w h wanted required cs : forall st,
  cands_from h cs -> cache_covered st -> cache_covered (snd (try_cands w h wanted required cs st)).
Proof.
  induction cs as [|c rest IH]; intros st Hf Hc; [exact Hc|].
  rewrite try_cands_cons.
  assert (Hrest : cands_from h rest) by (intros n Hn; apply Hf; right; exact Hn).
  assert (Hreg : forall st' d, cache_covered st' ->
            cache_covered (mkState (register (s_over st') (h_names h) d) (s_cache st') (s_subs st'))).
  { intros st' d Hc' m Hm. cbn in *. apply Hc'. eapply register_grows; eauto. }
  destruct c as [n|s|n|s]; cbn [run_cand].
  - destruct (get_cached_dep h st n wanted) as [[|k v]|]; cbn [snd].
    + destruct required; exact Hc.
    + apply Hreg; exact Hc.
    + destruct (required && is_nil rest); [exact Hc|]. apply IH; assumption.
  - destruct (if get_subproject st s then get_subproject_dep w h st s (h_spvar h) wanted else None) as [[|k v]|]; cbn [snd].
    + destruct required; exact Hc.
    + apply Hreg; exact Hc.
    + destruct (required && is_nil rest); [exact Hc|]. apply IH; assumption.
  - assert (Hin : In n (h_names h)) by (apply Hf; left; reflexivity).
    destruct (assoc (base n) (w_sys w)) as [v|].
    + destruct (sys_check wanted v).
      * cbn [snd]. intros m Hm. cbn [s_over s_cache] in *.
        destruct (str_eqb m n) eqn:E.
        -- apply str_eqb_eq in E. subst m. exfalso. exact (register_covers _ _ _ _ Hin Hm).
        -- rewrite (assoc_put_other _ _ _ _ E). apply Hc. eapply register_grows; eauto.
      * destruct (required && is_nil rest); cbn [snd]; [exact Hc|]. apply IH; assumption.
    + destruct (required && is_nil rest); cbn [snd]; [exact Hc|]. apply IH; assumption.
  - destruct (negb (h_force h) && h_nofb h).
    + destruct (required && is_nil rest); cbn [snd]; [exact Hc|]. apply IH; assumption.
    + destruct (do_subproject w st s (required && is_nil rest) (h_dl h)) as [st'|] eqn:Ed; [|exact Hc].
      pose proof (do_subproject_covered _ _ _ _ _ _ Ed Hc) as Hc'.
      destruct (get_subproject_dep w h st' s (h_spvar h) wanted) as [[|k v]|]; cbn [snd].
      * destruct required; exact Hc'.
      * apply Hreg; exact Hc'.
      * destruct (required && is_nil rest); [exact Hc'|]. apply IH; assumption.
Qed.

Lemma candidates_from h : cands_from h (candidates h).
Proof.
  intros n Hin. unfold candidates in Hin. rewrite !in_app_iff in Hin.
  destruct Hin as [Hin|[Hin|[Hin|Hin]]].
  - apply in_map_iff in Hin. destruct Hin as (x & Hx & _). discriminate.
  - destruct (truthy (h_spname h)); [|contradiction]. destruct (h_spname h); [|contradiction].
    destruct Hin as [Hx|[]]. discriminate.
  - destruct (negb (h_force h) || negb (truthy (h_spname h))); [|contradiction].
    apply in_map_iff in Hin. destruct Hin as (x & Hx & Hi). inversion Hx; subst. exact Hi.
  - destruct (truthy (h_spname h)); [|contradiction]. destruct (h_spname h); [|contradiction].
    destruct Hin as [Hx|[]]. discriminate.
Qed.

Lemma lookup_covered w o st names kw : cache_covered st -> cache_covered (snd (lookup w o st names kw)).
Proof.
  intros Hc. unfold lookup.
  repeat match goal with
         | |- context [match ?x with _ => _ end] => destruct x
         end; try exact Hc; (apply try_cands_covered; [apply candidates_from|exact Hc]).
Qed.

(* the interpreter states of one configuration: a fresh build directory, then
   meson.override_dependency / subproject() / dependency() calls in any order *)
Inductive reach (w : world) (o : opts) : state -> Prop :=
| reach_start : reach w o st0
| reach_override st n sk dl d over' :
    reach w o st -> override_dep (s_over st) n sk dl d = Ok over' ->
    reach w o (mkState over' (s_cache st) (s_subs st))
| reach_subproject st s req dl st' :
    reach w o st -> do_subproject w st s req dl = Ok st' -> reach w o st'
| reach_lookup st names kw :
    reach w o st -> reach w o (snd (lookup w o st names kw)).

Lemma reach_covered w o st : reach w o st -> cache_covered st.
Proof.
  induction 1 as [|st n sk dl d over' _ IH Ha|st s req dl st' _ IH Hd|st names kw _ IH].
  - intros n _. reflexivity.
  - intros m Hm. cbn in *. apply IH. eapply override_dep_grows; eauto.
  - eapply do_subproject_covered; eauto.
  - apply lookup_covered; exact IH.
Qed.

(* n further identical dependency() calls *)
Fixpoint again (w : world) (o : opts) (st : state) (names : list str) (kw : kwargs) (k : nat) : list outcome :=
  match k with
  | O => []
  | S k' => let '(r, st') := lookup w o st names kw in r :: again w o st' names kw k'
  end.

(* ... which fails when pkg-config reports the version string "undefined":
   dependency('foo', version: '!=1', required: false) twice *)
Definition w_undef : world := mkWorld [(s2l "foo", s2l "undefined")] [] [].
Definition kw_undef : kwargs := mkKw false [s2l "!=1"] None None None None.

Theorem repeat_lookup_refuted :
  exists w o st names kw r st1,
    reach w o st /\ lookup w o st names kw = (r, st1) /\ r <> OErr /\
    fst (lookup w o st1 names kw) <> r.
Proof.
  exists w_undef, (mkOpts WMdefault [] DShared []), st0, [s2l "foo"], kw_undef.
  exists (OFound (Found KSystem (s2l "undefined"))). eexists.
  split; [constructor|]. split; [vm_compute; reflexivity|].
  split; [discriminate|]. intro X. vm_compute in X. discriminate X.
Qed.

Example sys_defined_satisfiable : sys_defined (mkWorld [(s2l "foo", s2l "1.2")] [] []).
Proof.
  intros n v. cbn. match goal with |- context [if ?b then _ else _] => destruct b end; [|discriminate].
  intros H; inversion H; subst. intro X. vm_compute in X. discriminate X.
Qed.

Theorem lookup_follows_policy w o st n kw :
  reach w o st -> n <> [] -> fallback_named kw ->
  fst (lookup w o st [n] kw) = policy w o st n kw.
Proof. intros Hr Hn Hf. apply lookup_is_policy; auto. eapply reach_covered; eauto. Qed.
