(* Deps/Wrap.v — Resolver._resolve for [wrap-file] wraps as a step machine over an
   abstract file system and network, with a fault possible at every primitive step (C10).

   Transcribes mesonbuild/wrap/wrap.py: _resolve :557-658 (with the cleanup `try`
   covering acquisition as well as patch/diff, see pending/C10-partial-unpack-left-behind),
   check_can_download :669-674, _get_file :716-727, hash_file/check_hash :905-917,
   _download :929-946, _get_file_internal :948-968, apply_patch :970-987,
   apply_diff_files :989-1013.  No proofs in this file.

   Byte strings are identified by numbers; `digest` is SHA-256 on them and is a
   parameter: nothing below (and no theorem) depends on which function it is.
   What shutil.unpack_archive makes of a byte string is the table e_arch.
   Every primitive step (URL fetch, rename into the cache, hashing a file, mkdir,
   unpacking, tree copies, running patch(1), writing the wrap-hash file) consumes
   one tick of a step counter, is logged in the trace, and fails if the fault plan
   names that tick.  rmtree (the cleanup itself) is assumed not to fail. *)
From MV Require Import Base.Strs.
Open Scope N_scope.

Inductive fault := NoFault | FWrap | FOther.        (* inject WrapException / a non-Meson, non-OSError exception *)
Inductive exn := XWrap | XOther.                    (* WrapException | any other Exception *)
Inductive R (A : Type) := ROk (a : A) | RRaise (x : exn).
Arguments ROk {A} a.
Arguments RRaise {A} x.

Inductive what := WSource | WPatch.
Inductive fill := FNone | FPartial | FFull.
(* the subproject directory: is meson.build there, how much of the source tree,
   of the patch overlay, how many diff files applied, .meson-subproject-wrap-hash.txt *)
Record tree := mkTree { t_build : bool; t_src : fill; t_patch : fill; t_diffs : nat; t_hash : bool }.
Inductive dirstate := DAbsent | DNotDir | DDir (t : tree).
Inductive archive := ABad | AGood (has_build : bool).
Inductive patchspec := PNone | PFile (url fb : bool) (hash : option N) | PDir | PBoth.

Record wrapdef := mkWrapdef {
  wd_src_url : bool;                 (* source_url present *)
  wd_src_fb : bool;                  (* source_fallback_url present *)
  wd_src_hash : option N;            (* source_hash *)
  wd_lead_missing : bool;            (* lead_directory_missing *)
  wd_patch : patchspec }.            (* patch_filename (+patch_url, patch_fallback_url, patch_hash) / patch_directory *)

Record env := mkEnv {
  e_wrap : wrapdef;
  e_nodownload : bool;               (* wrap_mode == nodownload *)
  e_net_src : option N;              (* what source_url serves; None = cannot be fetched *)
  e_net_src_fb : option N;
  e_net_patch : option N;
  e_net_patch_fb : option N;
  e_pf_src : option N;               (* packagefiles/<source_filename> *)
  e_pf_patch : option N;             (* packagefiles/<patch_filename> *)
  e_pf_patchdir : option bool;       (* packagefiles/<patch_directory>; Some hb: exists, carries meson.build iff hb *)
  e_diff_files : list (option bool); (* diff_files in order: None = missing, Some ok: present, applies iff ok *)
  e_cached_tree : option bool;       (* packagecache/<directory> is a directory; Some hb *)
  e_arch : list (N * archive);       (* unpack_archive on these bytes; unlisted = not an archive *)
  e_faults : list (nat * fault) }.   (* fault plan: tick -> injected fault *)

Inductive event :=
| EFetch (w : what) (fallback : bool)       (* a URL was opened *)
| ERename (w : what)                        (* temp file renamed into the package cache *)
| EHash (w : what)                          (* hash_file on a cache / packagefiles file *)
| EMkdir
| EUnpack (w : what) (b : N)                (* unpack_archive(bytes b) into subprojects/ *)
| EUnpackTmp (b : N)                        (* second patch attempt: unpack into a temp dir *)
| ECopyTmp                                  (*   ... and copy_tree from there *)
| ECopyCached                               (* copy_tree(packagecache/<directory>) *)
| ECopyPatchDir
| EDiff (i : nat)
| EWriteHash
| ERmtree.

Record mst := mkM {
  m_dir : dirstate;
  m_cache_src : option N;            (* packagecache/<source_filename> *)
  m_cache_patch : option N;
  m_ctr : nat;
  m_trace : list event }.            (* newest first *)

Fixpoint nassoc {A : Type} (k : nat) (l : list (nat * A)) : option A :=
  match l with
  | [] => None
  | (k', v) :: r => if Nat.eqb k k' then Some v else nassoc k r
  end.
Fixpoint Nassoc {A : Type} (k : N) (l : list (N * A)) : option A :=
  match l with
  | [] => None
  | (k', v) :: r => if N.eqb k k' then Some v else Nassoc k r
  end.

Definition arch_of (e : env) (b : N) : archive :=
  match Nassoc b (e_arch e) with Some a => a | None => ABad end.
Definition fault_at (e : env) (n : nat) : fault :=
  match nassoc n (e_faults e) with Some f => f | None => NoFault end.

(* one primitive step: log it, consume a tick, report the injected fault *)
Definition tick (e : env) (ev : event) (s : mst) : fault * mst :=
  (fault_at e (m_ctr s), mkM (m_dir s) (m_cache_src s) (m_cache_patch s) (S (m_ctr s)) (ev :: m_trace s)).

Definition set_dir (s : mst) (d : dirstate) : mst :=
  mkM d (m_cache_src s) (m_cache_patch s) (m_ctr s) (m_trace s).
Definition set_cache (s : mst) (w : what) (b : N) : mst :=
  match w with
  | WSource => mkM (m_dir s) (Some b) (m_cache_patch s) (m_ctr s) (m_trace s)
  | WPatch => mkM (m_dir s) (m_cache_src s) (Some b) (m_ctr s) (m_trace s)
  end.

Definition exn_of (f : fault) : exn := match f with FOther => XOther | _ => XWrap end.

Definition has_url (e : env) (w : what) : bool :=
  match w with
  | WSource => wd_src_url (e_wrap e)
  | WPatch => match wd_patch (e_wrap e) with PFile u _ _ => u | _ => false end
  end.
Definition has_fb (e : env) (w : what) : bool :=
  match w with
  | WSource => wd_src_fb (e_wrap e)
  | WPatch => match wd_patch (e_wrap e) with PFile _ f _ => f | _ => false end
  end.
Definition hash_of (e : env) (w : what) : option N :=
  match w with
  | WSource => wd_src_hash (e_wrap e)
  | WPatch => match wd_patch (e_wrap e) with PFile _ _ h => h | _ => None end
  end.
Definition net (e : env) (w : what) (fallback : bool) : option N :=
  match w, fallback with
  | WSource, false => e_net_src e | WSource, true => e_net_src_fb e
  | WPatch, false => e_net_patch e | WPatch, true => e_net_patch_fb e
  end.
Definition cache_of (s : mst) (w : what) : option N :=
  match w with WSource => m_cache_src s | WPatch => m_cache_patch s end.
Definition pf_of (e : env) (w : what) : option N :=
  match w with WSource => e_pf_src e | WPatch => e_pf_patch e end.

Definition or_fill (a b : fill) : fill :=
  match a, b with FFull, _ => FFull | _, FFull => FFull | FPartial, _ => FPartial | _, FPartial => FPartial | _, _ => FNone end.

Definition put_src (d : dirstate) (hb : bool) (f : fill) : dirstate :=
  match d with
  | DDir t => DDir (mkTree (t_build t || hb) f (t_patch t) (t_diffs t) (t_hash t))
  | _ => DDir (mkTree hb f FNone 0 false)
  end.
Definition put_patch (d : dirstate) (hb : bool) (f : fill) : dirstate :=
  match d with
  | DDir t => DDir (mkTree (t_build t || hb) (t_src t) (or_fill (t_patch t) f) (t_diffs t) (t_hash t))
  | _ => DDir (mkTree hb FNone f 0 false)
  end.
Definition put_diff (d : dirstate) : dirstate :=
  match d with
  | DDir t => DDir (mkTree (t_build t) (t_src t) (t_patch t) (S (t_diffs t)) (t_hash t))
  | _ => d
  end.
Definition put_hash (d : dirstate) : dirstate :=
  match d with
  | DDir t => DDir (mkTree (t_build t) (t_src t) (t_patch t) (t_diffs t) true)
  | _ => d
  end.

Section Machine.
Variable digest : N -> N.
Variable e : env.

(* _download (:929-946); fallback = False, then possibly one recursive call with True *)
Definition download1 (w : what) (fallback : bool) (s : mst) : R N * mst :=
  if e_nodownload e then (RRaise XWrap, s)                          (* :930 check_can_download *)
  else
    let '(f, s1) := tick e (EFetch w fallback) s in                 (* :934 get_data_with_backoff *)
    match f with
    | FWrap => (RRaise XWrap, s1)
    | FOther => (RRaise XOther, s1)
    | NoFault =>
        match net e w fallback with
        | None => (RRaise XWrap, s1)                                (* :869-874 could not get ... *)
        | Some b =>
            match hash_of e w with
            | None => (RRaise XWrap, s1)                            (* :935 Missing key ..._hash *)
            | Some h => if N.eqb (digest b) h then (ROk b, s1)
                        else (RRaise XWrap, s1)                     (* :936-938 remove temp, Incorrect hash *)
            end
        end
    end.

Definition download (w : what) (s : mst) : R unit * mst :=
  let '(r, s1) :=
    match download1 w false s with
    | (RRaise XWrap, s1) =>
        if e_nodownload e then (RRaise XWrap, s1)                   (* raised before the try *)
        else if has_fb e w then download1 w true s1                 (* :939-942 *)
        else (RRaise XWrap, s1)
    | other => other
    end in
  match r with
  | RRaise x => (RRaise x, s1)
  | ROk b =>
      let '(f, s2) := tick e (ERename w) s1 in                      (* :946 os.rename *)
      match f with
      | NoFault => (ROk tt, set_cache s2 w b)
      | ff => (RRaise (exn_of ff), s2)
      end
  end.

(* check_hash (:911-917) on bytes b *)
Definition check_hash (w : what) (b : N) (hash_required : bool) (s : mst) : R unit * mst :=
  match hash_of e w with
  | None => if hash_required then (RRaise XWrap, s) else (ROk tt, s)   (* :912-914 *)
  | Some h =>
      let '(f, s1) := tick e (EHash w) s in                          (* :915 hash_file *)
      match f with
      | NoFault => if N.eqb (digest b) h then (ROk tt, s1) else (RRaise XWrap, s1)
      | ff => (RRaise (exn_of ff), s1)
      end
  end.

(* _get_file_internal (:948-968): returns the bytes of the file whose path it returns *)
Definition get_file_internal (w : what) (s : mst) : R N * mst :=
  if has_url e w then
    match cache_of s w with
    | Some b =>                                                      (* :953-956 cache hit, re-verified *)
        match check_hash w b true s with
        | (ROk _, s1) => (ROk b, s1)
        | (RRaise x, s1) => (RRaise x, s1)
        end
    | None =>                                                        (* :958-960 *)
        match download w s with
        | (ROk _, s1) => match cache_of s1 w with
                         | Some b => (ROk b, s1)
                         | None => (RRaise XOther, s1)
                         end
        | (RRaise x, s1) => (RRaise x, s1)
        end
    end
  else
    match pf_of e w with
    | None => (RRaise XWrap, s)                                      (* :964-965 *)
    | Some b =>
        match check_hash w b false s with                            (* :966 *)
        | (ROk _, s1) => (ROk b, s1)
        | (RRaise x, s1) => (RRaise x, s1)
        end
    end.

(* _get_file (:716-727) *)
Definition get_file (s : mst) : R unit * mst :=
  match get_file_internal WSource s with
  | (RRaise x, s1) => (RRaise x, s1)
  | (ROk b, s1) =>
      let '(r, s2) :=
        if wd_lead_missing (e_wrap e) then                           (* :721-723 *)
          let '(f, s2) := tick e EMkdir s1 in
          match f with
          | NoFault => (ROk tt, set_dir s2 (DDir (mkTree false FNone FNone 0 false)))
          | ff => (RRaise (exn_of ff), s2)
          end
        else (ROk tt, s1) in
      match r with
      | RRaise x => (RRaise x, s2)
      | ROk _ =>
          let '(f, s3) := tick e (EUnpack WSource b) s2 in           (* :725 *)
          match f, arch_of e b with
          | NoFault, AGood hb => (ROk tt, set_dir s3 (put_src (m_dir s3) hb FFull))
          | NoFault, ABad => (RRaise XWrap, s3)                      (* shutil.ReadError is an OSError: :726-727 *)
          | FWrap, AGood hb => (RRaise XWrap, set_dir s3 (put_src (m_dir s3) hb FPartial))
          | FOther, AGood hb => (RRaise XOther, set_dir s3 (put_src (m_dir s3) hb FPartial))
          | FWrap, ABad => (RRaise XWrap, s3)
          | FOther, ABad => (RRaise XOther, s3)
          end
      end
  end.

(* apply_patch (:970-987) *)
Definition apply_patch (s : mst) : R unit * mst :=
  match wd_patch (e_wrap e) with
  | PBoth => (RRaise XWrap, s)                                       (* :971-973 *)
  | PNone => (ROk tt, s)
  | PFile _ _ _ =>
      match get_file_internal WPatch s with                          (* :975 *)
      | (RRaise x, s1) => (RRaise x, s1)
      | (ROk b, s1) =>
          let '(f, s2) := tick e (EUnpack WPatch b) s1 in            (* :977 *)
          match f, arch_of e b with
          | NoFault, AGood hb => (ROk tt, set_dir s2 (put_patch (m_dir s2) hb FFull))
          | _, a =>                                                  (* :978-981 except Exception: retry through a temp dir *)
              let s2' := match f, a with
                         | NoFault, _ => s2
                         | _, AGood hb => set_dir s2 (put_patch (m_dir s2) hb FPartial)
                         | _, ABad => s2
                         end in
              let '(f3, s3) := tick e (EUnpackTmp b) s2' in
              match f3, a with
              | NoFault, AGood hb =>
                  let '(f4, s4) := tick e ECopyTmp s3 in
                  match f4 with
                  | NoFault => (ROk tt, set_dir s4 (put_patch (m_dir s4) hb FFull))
                  | ff => (RRaise (exn_of ff), set_dir s4 (put_patch (m_dir s4) hb FPartial))
                  end
              | NoFault, ABad => (RRaise XOther, s3)                 (* shutil.ReadError escapes *)
              | ff, _ => (RRaise (exn_of ff), s3)
              end
          end
      end
  | PDir =>
      match e_pf_patchdir e with
      | None => (RRaise XWrap, s)                                    (* :985-986 *)
      | Some hb =>
          let '(f, s1) := tick e ECopyPatchDir s in                  (* :987 *)
          match f with
          | NoFault => (ROk tt, set_dir s1 (put_patch (m_dir s1) hb FFull))
          | ff => (RRaise (exn_of ff), set_dir s1 (put_patch (m_dir s1) hb FPartial))
          end
      end
  end.

(* apply_diff_files (:989-1013) *)
Fixpoint apply_diffs (i : nat) (l : list (option bool)) (s : mst) : R unit * mst :=
  match l with
  | [] => (ROk tt, s)
  | None :: _ => (RRaise XWrap, s)                                   (* :993-994 *)
  | Some ok :: r =>
      let '(f, s1) := tick e (EDiff i) s in                          (* :1010 Popen_safe *)
      match f with
      | NoFault => if ok then apply_diffs (S i) r (set_dir s1 (put_diff (m_dir s1)))
                   else (RRaise XWrap, s1)                           (* :1011-1013 *)
      | FWrap => (RRaise XWrap, s1)                                  (* patch(1) exits non-zero *)
      | FOther => (RRaise XOther, s1)
      end
  end.

(* the body of the cleanup `try` in _resolve (:629-646, fixed) *)
Definition prepare (s : mst) : R unit * mst :=
  let '(r, s1) :=
    match e_cached_tree e with
    | Some hb =>                                                     (* :630-631 *)
        let '(f, s1) := tick e ECopyCached s in
        match f with
        | NoFault => (ROk tt, set_dir s1 (put_src (m_dir s1) hb FFull))
        | ff => (RRaise (exn_of ff), set_dir s1 (put_src (m_dir s1) hb FPartial))
        end
    | None => get_file s                                             (* :632-633 *)
    end in
  match r with
  | RRaise x => (RRaise x, s1)
  | ROk _ =>
      match apply_patch s1 with                                      (* :645 *)
      | (RRaise x, s2) => (RRaise x, s2)
      | (ROk _, s2) => apply_diffs 0 (e_diff_files e) s2             (* :646 *)
      end
  end.

Definition has_buildfile (d : dirstate) : bool :=
  match d with DDir t => t_build t | _ => false end.

(* _resolve (:557-658) for a wrap-file wrap present in Resolver.wraps *)
Definition resolve (s : mst) : R unit * mst :=
  if has_buildfile (m_dir s) then (ROk tt, s)                        (* :611-613 *)
  else
    let '(r, s1) :=
      match m_dir s with
      | DNotDir => (RRaise XWrap, s)                                 (* :619-620 *)
      | DDir _ => (ROk tt, s)                                        (* :618 exists: nothing fetched *)
      | DAbsent =>
          match prepare s with
          | (RRaise x, s1) =>                                        (* :647-649 *)
              (RRaise x, mkM DAbsent (m_cache_src s1) (m_cache_patch s1) (m_ctr s1) (ERmtree :: m_trace s1))
          | ok => ok
          end
      end in
    match r with
    | RRaise x => (RRaise x, s1)
    | ROk _ =>
        if negb (has_buildfile (m_dir s1)) then (RRaise XWrap, s1)   (* :651-652 *)
        else
          let '(f, s2) := tick e EWriteHash s1 in                    (* :657 update_hash_cache *)
          match f with
          | NoFault => (ROk tt, set_dir s2 (put_hash (m_dir s2)))
          | ff => (RRaise (exn_of ff), s2)
          end
    end.

(* _resolve as it was before the fix (wrap.py:629-649 at b8a063f): only apply_patch and
   apply_diff_files are inside the cleanup `try`.  Kept for the refutation witness in
   Deps/WrapProofs.v; not used by the correspondence. *)
Definition acquire (s : mst) : R unit * mst :=
  match e_cached_tree e with
  | Some hb =>
      let '(f, s1) := tick e ECopyCached s in
      match f with
      | NoFault => (ROk tt, set_dir s1 (put_src (m_dir s1) hb FFull))
      | ff => (RRaise (exn_of ff), set_dir s1 (put_src (m_dir s1) hb FPartial))
      end
  | None => get_file s
  end.

Definition resolve_unfixed (s : mst) : R unit * mst :=
  if has_buildfile (m_dir s) then (ROk tt, s)
  else
    let '(r, s1) :=
      match m_dir s with
      | DNotDir => (RRaise XWrap, s)
      | DDir _ => (ROk tt, s)
      | DAbsent =>
          match acquire s with
          | (RRaise x, s1) => (RRaise x, s1)                          (* nothing removed *)
          | (ROk _, s1) =>
              match (match apply_patch s1 with
                     | (RRaise x, s2) => (RRaise x, s2)
                     | (ROk _, s2) => apply_diffs 0 (e_diff_files e) s2
                     end) with
              | (RRaise x, s2) =>
                  (RRaise x, mkM DAbsent (m_cache_src s2) (m_cache_patch s2) (m_ctr s2) (ERmtree :: m_trace s2))
              | ok => ok
              end
          end
      end in
    match r with
    | RRaise x => (RRaise x, s1)
    | ROk _ =>
        if negb (has_buildfile (m_dir s1)) then (RRaise XWrap, s1)
        else
          let '(f, s2) := tick e EWriteHash s1 in
          match f with
          | NoFault => (ROk tt, set_dir s2 (put_hash (m_dir s2)))
          | ff => (RRaise (exn_of ff), s2)
          end
    end.

End Machine.
