(* Extraction of the C10 model.  Only the ExtrOcamlBasic directives are used. *)
From Coq Require Extraction.
From Coq Require Import ExtrOcamlBasic.
From MV Require Import Deps.Entry.
Extraction "../extract/C10/model.ml" Deps.Entry.run.
