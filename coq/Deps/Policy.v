(* Deps/Policy.v — the documented fallback policy of dependency() for one name, as a
   decision list (docs/yaml/functions/dependency.yaml, docs/markdown/Subprojects.md
   "--wrap-mode", "--force-fallback-for", Wrap-dependency-system-manual.md "[provide]").
   This is the specification C10 states; Deps/Proofs.v proves the model of
   dependencyfallbacks.py equal to it.  No proofs in this file. *)
From MV Require Import Base.Strs Version.Model Deps.Lookup.
Open Scope N_scope.

(* "with nothing suitable a required lookup is an error and an optional one yields not-found" *)
Definition fail (required : bool) : outcome := if required then OErr else ONotFound.

(* A dependency object that has been singled out (an override, or what the fallback
   subproject offers) is the answer if it is found and satisfies the version
   constraints; otherwise the lookup fails - nothing else is searched. *)
Definition vet (wanted : list str) (required : bool) (d : dep) : outcome :=
  match d with
  | Found k v => if check_version wanted v then OFound (Found k v) else fail required
  | NotFound => fail required
  end.

(* "the system dependency is used when present and matching the version constraints" *)
Definition system_dep (w : world) (n : str) (wanted : list str) : option dep :=
  match assoc n (w_sys w) with
  | Some v => if sys_check wanted v then Some (Found KSystem v) else None
  | None => None
  end.

(* What a configured subproject s offers for the name n looked up with `static: sk`: the
   dependency it (or anyone) registered under the identifier (n, sk) with
   meson.override_dependency, else the variable named in fallback: [s, var] or in the
   wrap's [provide] section. *)
Definition sub_offer (w : world) (st : state) (s : str) (var : option str) (sk : option bool) (n : str) : dep :=
  match assoc (ident sk n) (s_over st) with
  | Some (d, _) => d
  | None =>
      let var := if truthy var then var
                 else (let v := get_varname w s n in if truthy v then v else None) in
      match var with
      | Some (c :: vn) =>
          match assoc s (w_subs w) with
          | Some sd => match assoc (c :: vn) (sd_vars sd) with Some (VDep d) => d | _ => NotFound end
          | None => NotFound
          end
      | _ => NotFound
      end
  end.

(* fallback is forced: wrap_mode=forcefallback or force_fallback_for names the dependency or the subproject *)
Definition forced (o : opts) (n : str) (s : str) : bool :=
  is_forcefallback (o_wrap_mode o) || str_mem n (o_fff o) || str_mem s (o_fff o).

Inductive fbspec := FbNone | FbSub (s : str) (var : option str) | FbInvalid.

(* Which subproject, if any, is the fallback: explicit `fallback:`, or a wrap [provide]
   entry when allow_fallback permits: true, or unset with a required or forced lookup
   (or when that subproject has been configured already). *)
Definition fallback_of (w : world) (o : opts) (st : state) (n : str) (kw : kwargs) : fbspec :=
  match k_fallback kw with
  | Some l =>
      if is_some (k_allow kw) then FbInvalid                 (* mutually exclusive *)
      else match l with
           | [] => FbNone                                    (* fallback: [] = allow_fallback: false *)
           | [s] => FbSub s None
           | [s; v] => FbSub s (Some v)
           | _ => FbInvalid
           end
  | None =>
      match k_allow kw with
      | Some false => FbNone
      | a =>
          match find_dep_provider w n with
          | Some (c :: s, var) =>
              if forced o n (c :: s) || (match a with Some true => true | _ => false end)
                 || k_required kw || get_subproject st (c :: s)
              then FbSub (c :: s) var else FbNone
          | _ => FbNone
          end
      end
  end.

(* "a fallback subproject is configured": configure s unless that has happened already
   (interpreter.py do_subproject) and take what it offers *)
Definition use_subproject (w : world) (st : state) (s : str) (var : option str) (sk : option bool) (n : str)
           (wanted : list str) (required : bool) (dl : dlib) : outcome :=
  match do_subproject w st s required dl with
  | Err => OErr
  | Ok st' => if get_subproject st' s then vet wanted required (sub_offer w st' s var sk n)
              else fail required
  end.

Definition policy (w : world) (o : opts) (st : state) (n : str) (kw : kwargs) : outcome :=
  let required := k_required kw in
  let wanted := k_version kw in
  let sk := k_static kw in
  if bad_name n then OErr else
  match fallback_of w o st n kw with
  | FbInvalid => OErr
  | fb =>
    match assoc (ident sk n) (s_over st) with
    | Some (d, _) => vet wanted required d                    (* 1. an overridden dependency wins *)
    | None =>
        match fb with
        | FbSub s var =>
            if get_subproject st s
            then vet wanted required (sub_offer w st s var sk n)  (* 2. fallback subproject already configured *)
            else if forced o n s
            then use_subproject w st s var sk n wanted required (eff_dl o s sk (k_deflib kw))   (* 3. forced: the system is not consulted *)
            else match system_dep w n wanted with
                 | Some d => OFound d                          (* 4. the system dependency *)
                 | None =>
                     if is_nofallback (o_wrap_mode o) then fail required   (* 5. wrap_mode=nofallback *)
                     else use_subproject w st s var sk n wanted required (eff_dl o s sk (k_deflib kw))   (* 6. configure the fallback *)
                 end
        | _ =>
            match system_dep w n wanted with
            | Some d => OFound d
            | None => fail required                           (* 7. nothing suitable *)
            end
        end
    end
  end.

(* ------------------------------------------------------------------ several names *)
(* dependency('a', 'b', ...): "the names are tried in order and the first found is used; the
   fallback subproject is used only if none of the names is found on the system; once one name
   has been found all names answer with it" (docs/yaml/functions/dependency.yaml, varargs). *)

(* the first identifier, in order, that somebody has overridden *)
Fixpoint first_override (st : state) (names : list str) : option dep :=
  match names with
  | [] => None
  | n :: r => match assoc n (s_over st) with
              | Some (d, _) => Some d
              | None => first_override st r
              end
  end.

(* the first name, in order, that the system has in a matching version *)
Fixpoint first_system (w : world) (names : list str) (wanted : list str) : option dep :=
  match names with
  | [] => None
  | n :: r => match system_dep w n wanted with
              | Some d => Some d
              | None => first_system w r wanted
              end
  end.

(* the first name, in order, that a wrap provides decides the implicit fallback *)
Fixpoint provider_of (w : world) (names : list str) : option (str * option str) :=
  match names with
  | [] => None
  | n :: r => match find_dep_provider w n with
              | Some (c :: s, var) => Some (c :: s, var)
              | _ => provider_of w r
              end
  end.

Definition forcedN (o : opts) (names : list str) (s : str) : bool :=
  is_forcefallback (o_wrap_mode o) || existsb (fun n => str_mem n (o_fff o)) names || str_mem s (o_fff o).

Definition fallback_ofN (w : world) (o : opts) (st : state) (names : list str) (kw : kwargs) : fbspec :=
  match k_fallback kw with
  | Some l =>
      if is_some (k_allow kw) then FbInvalid
      else match l with
           | [] => FbNone
           | [s] => FbSub s None
           | [s; v] => FbSub s (Some v)
           | _ => FbInvalid
           end
  | None =>
      match k_allow kw with
      | Some false => FbNone
      | a =>
          match provider_of w names with
          | Some (s, var) =>
              if forcedN o names s || (match a with Some true => true | _ => false end)
                 || k_required kw || get_subproject st s
              then FbSub s var else FbNone
          | None => FbNone
          end
      end
  end.

(* the variable a configured subproject offers when nobody overrode any of the names *)
Definition var_offer (w : world) (s : str) (var : option str) (names : list str) : dep :=
  let var := if truthy var then var else first_varname w s names in
  match var with
  | Some (c :: vn) =>
      match assoc s (w_subs w) with
      | Some sd => match assoc (c :: vn) (sd_vars sd) with Some (VDep d) => d | _ => NotFound end
      | None => NotFound
      end
  | _ => NotFound
  end.

Definition sub_offerN (w : world) (st : state) (s : str) (var : option str) (names : list str) : dep :=
  match first_override st names with
  | Some d => d
  | None => var_offer w s var names
  end.

Definition use_subprojectN (w : world) (st : state) (s : str) (var : option str) (names : list str)
           (wanted : list str) (required : bool) (dl : dlib) : outcome :=
  match do_subproject w st s required dl with
  | Err => OErr
  | Ok st' => if get_subproject st' s then vet wanted required (sub_offerN w st' s var names)
              else fail required
  end.

Definition policyN (w : world) (o : opts) (st : state) (names0 : list str) (kw : kwargs) : outcome :=
  let names := filter (fun n => negb (is_nil n)) names0 in      (* '' is "no name" *)
  let required := k_required kw in
  let wanted := k_version kw in
  if negb (names_ok [] names) then OErr else                     (* <, >, = in a name; a duplicate *)
  let ids := map (ident (k_static kw)) names in                  (* identifiers (name, static) *)
  match fallback_ofN w o st names kw with
  | FbInvalid => OErr
  | fb =>
    match first_override st ids with
    | Some d => vet wanted required d                            (* 1. an overridden name wins *)
    | None =>
        match fb with
        | FbSub s var =>
            if get_subproject st s
            then vet wanted required (var_offer w s var ids)     (* 2. fallback subproject already configured *)
            else if forcedN o names s
            then use_subprojectN w st s var ids wanted required (eff_dl o s (k_static kw) (k_deflib kw))   (* 3. forced *)
            else match first_system w names wanted with
                 | Some d => OFound d                            (* 4. the first name the system has *)
                 | None =>
                     if is_nofallback (o_wrap_mode o) then fail required
                     else use_subprojectN w st s var ids wanted required (eff_dl o s (k_static kw) (k_deflib kw))   (* 6. configure the fallback *)
                 end
        | _ =>
            match first_system w names wanted with
            | Some d => OFound d
            | None => fail required
            end
        end
    end
  end.
