(* Deps/Entry.v — entry points used by the C10 correspondence.  Arguments arrive as
   strings; structure is encoded with the separator code points 1 (fields),
   2 (list items) and 3 (pairs); results are rendered to one canonical string.
   The encodings are mirrored in harness/check_C10.py and harness/impl/c10.py. *)
From MV Require Import Base.Strs Deps.Lookup Deps.Policy Deps.Wrap.
Open Scope N_scope.

(* split s at every occurrence of c; "" gives [""] *)
Fixpoint split_on (c : char) (s : str) : list str :=
  match s with
  | [] => [[]]
  | x :: r =>
      match split_on c r with
      | h :: t => if N.eqb x c then [] :: h :: t else (x :: h) :: t
      | [] => [[x]]
      end
  end.
Definition fields (s : str) : list str := split_on 1 s.
Definition items (s : str) : list str := match s with [] => [] | _ => split_on 2 s end.
Definition pair_of (s : str) : str * str :=
  match split_on 3 s with
  | [a] => (a, [])
  | a :: b :: _ => (a, b)
  | [] => ([], [])
  end.
Definition is_T (s : str) : bool := str_eqb s [84].

(* ------------------------------------------------------------------ lookups *)
Definition dec_dep (s : str) : dep :=
  match s with
  | 73 :: v => Found KInternal v        (* I<version> *)
  | 89 :: v => Found KSystem v          (* Y<version> *)
  | _ => NotFound                       (* N *)
  end.
Definition dec_var (s : str) : var :=
  match s with
  | 88 :: _ => VOther                   (* X *)
  | _ => VDep (dec_dep s)
  end.
Definition dec_obool (s : str) : option bool :=
  match s with
  | [84] => Some true | [70] => Some false | _ => None
  end.
Definition dec_wrapmode (s : str) : wrapmode :=
  if str_eqb s (s2l "nofallback") then WMnofallback
  else if str_eqb s (s2l "nodownload") then WMnodownload
  else if str_eqb s (s2l "forcefallback") then WMforcefallback
  else if str_eqb s (s2l "nopromote") then WMnopromote
  else WMdefault.

Definition dec_dlib (s : str) : dlib :=
  if str_eqb s (s2l "static") then DStatic else if str_eqb s (s2l "both") then DBoth else DShared.
Definition dec_odlib (s : str) : option dlib := match s with [45] => None | _ => Some (dec_dlib s) end.
(* an override inside a subproject: <N|T|F><dependency> *)
Definition dec_sover (s : str) : option bool * dep :=
  match s with
  | c :: r => (dec_obool [c], dec_dep r)
  | [] => (None, NotFound)
  end.

Definition dec_entry (s : str) : str * option str :=
  match split_on 3 s with
  | [k] => (k, None)
  | k :: v :: _ => (k, Some v)
  | [] => ([], None)
  end.

(* PackageDefinition.__init__ (:232) then parse_provide_section (:316-338) *)
Definition mk_wrapinfo (name : str) (entries : list (str * option str)) : wrapinfo :=
  mkWrap name (fold_left (fun acc kv => assoc_put (fst kv) (snd kv) acc) entries [(lower name, None)]).

Record parsed := mkParsed { p_sys : list (str * str); p_wraps : list wrapinfo;
                            p_subs : list (str * subdef); p_ops : list op }.

Definition parse_item (p : parsed) (it : str) : parsed :=
  match fields it with
  | [83] :: n :: v :: _ =>                                  (* S *)
      mkParsed (p_sys p ++ [(n, v)]) (p_wraps p) (p_subs p) (p_ops p)
  | [87] :: n :: es =>                                      (* W *)
      mkParsed (p_sys p) (p_wraps p ++ [mk_wrapinfo n (map dec_entry es)]) (p_subs p) (p_ops p)
  | [68] :: n :: f :: ov :: vs :: _ =>                      (* D *)
      let ovs := map (fun s => let '(a, b) := pair_of s in let '(sk, d) := dec_sover b in (a, sk, d)) (items ov) in
      let vars := map (fun s => let '(a, b) := pair_of s in (a, dec_var b)) (items vs) in
      mkParsed (p_sys p) (p_wraps p) (p_subs p ++ [(n, mkSub (is_T f) ovs vars)]) (p_ops p)
  | [79] :: n :: sk :: d :: _ =>                            (* O *)
      mkParsed (p_sys p) (p_wraps p) (p_subs p) (p_ops p ++ [OpOverride n (dec_obool sk) (dec_dep d)])
  | [80] :: s :: r :: dl :: _ =>                            (* P *)
      mkParsed (p_sys p) (p_wraps p) (p_subs p) (p_ops p ++ [OpSubproject s (is_T r) (dec_odlib dl)])
  | [76] :: ns :: r :: vs :: al :: fb :: sk :: dl :: _ =>   (* L *)
      let fbv := match fb with
                 | 61 :: rest => Some (items rest)          (* =a<2>b *)
                 | _ => None
                 end in
      (* dependency('') : the empty name is written as a single code point 4 *)
      let names := map (fun n => if str_eqb n [4] then [] else n) (items ns) in
      mkParsed (p_sys p) (p_wraps p) (p_subs p)
               (p_ops p ++ [OpLookup names (mkKw (is_T r) (items vs) (dec_obool al) fbv (dec_obool sk) (dec_odlib dl))])
  | _ => p
  end.

Definition render_outcome (o : outcome) : str :=
  match o with
  | OFound (Found KSystem v) => s2l "T:pkgconfig:" ++ v
  | OFound (Found KInternal v) => s2l "T:internal:" ++ v
  | OFound NotFound => s2l "F:not-found:unknown"
  | ONotFound => s2l "F:not-found:unknown"
  | OErr => s2l "ERR"
  end.

Definition run_prog (args : list str) : str :=
  match args with
  | wm :: fff :: dl :: sdl :: its =>
      let p := fold_left parse_item its (mkParsed [] [] [] []) in
      let w := mkWorld (p_sys p) (p_wraps p) (p_subs p) in
      let o := mkOpts (dec_wrapmode wm) (items fff) (dec_dlib dl)
                      (map (fun s => let '(a, b) := pair_of s in (a, dec_dlib b)) (items sdl)) in
      let '(outs, ok) := run_ops w o st0 (p_ops p) in
      join [1] (map render_outcome outs ++ [if ok then s2l "OK" else s2l "ERR"])
  | _ => s2l "?"
  end.

(* the documented policy (Deps/Policy.policyN) for the first dependency() call of the build
   file: what it must return, "-" when not applicable *)
Fixpoint first_policy (w : world) (o : opts) (st : state) (ops : list op) : str :=
  match ops with
  | [] => [45]
  | OpOverride n sk d :: r =>
      match override_dep (s_over st) n sk (o_deflib o) d with
      | Ok over' => first_policy w o (mkState over' (s_cache st) (s_subs st)) r
      | Err => [45]
      end
  | OpSubproject s req dl :: r =>
      match do_subproject w st s req (eff_dl o s None dl) with
      | Ok st' => first_policy w o st' r
      | Err => [45]
      end
  | OpLookup names kw :: _ =>
      match k_fallback kw with
      | Some ([] :: _) => [45]
      | _ => render_outcome (policyN w o st names kw)
      end
  end.

Definition run_policy (args : list str) : str :=
  match args with
  | wm :: fff :: dl :: sdl :: its =>
      let p := fold_left parse_item its (mkParsed [] [] [] []) in
      first_policy (mkWorld (p_sys p) (p_wraps p) (p_subs p))
                   (mkOpts (dec_wrapmode wm) (items fff) (dec_dlib dl)
                           (map (fun s => let '(a, b) := pair_of s in (a, dec_dlib b)) (items sdl)))
                   st0 (p_ops p)
  | _ => s2l "?"
  end.

(* ------------------------------------------------------------------ wraps *)
Definition dec_oN (s : str) : option N := match s with [45] => None | _ => Some (digits_val s) end.
Definition dec_obool' (s : str) : option bool := match s with [45] => None | _ => Some (is_T s) end.
Definition dec_nat (s : str) : nat := N.to_nat (digits_val s).

Definition dec_wrapdef (s : str) : wrapdef :=
  match fields s with
  | su :: sf :: sh :: lm :: pk :: pu :: pfb :: ph :: _ =>
      mkWrapdef (is_T su) (is_T sf) (dec_oN sh) (is_T lm)
        (match pk with
         | [70] => PFile (is_T pu) (is_T pfb) (dec_oN ph)   (* F *)
         | [68] => PDir                                     (* D *)
         | [66] => PBoth                                    (* B *)
         | _ => PNone
         end)
  | _ => mkWrapdef false false None false PNone
  end.

Definition dec_arch (s : str) : N * archive :=
  let '(a, b) := pair_of s in
  (digits_val a, match b with [84] => AGood true | [70] => AGood false | _ => ABad end).
Definition dec_fault (s : str) : nat * fault :=
  let '(a, b) := pair_of s in
  (dec_nat a, match b with [87] => FWrap | [79] => FOther | _ => NoFault end).

Definition dec_fill (s : str) : fill :=
  match s with [80] => FPartial | [70] => FFull | _ => FNone end.   (* P / F / N *)
Definition dec_dir (s : str) : dirstate :=
  match split_on 58 s with
  | [65] :: _ => DAbsent
  | [78] :: _ => DNotDir
  | [68] :: b :: sr :: pa :: di :: ha :: _ =>
      DDir (mkTree (is_T b) (dec_fill sr) (dec_fill pa) (dec_nat di) (is_T ha))
  | _ => DAbsent
  end.

Definition render_fill (f : fill) : str := match f with FNone => [78] | FPartial => [80] | FFull => [70] end.
Definition render_dir (d : dirstate) : str :=
  match d with
  | DAbsent => [65]
  | DNotDir => [78]
  | DDir t => join [58] [[68]; bool_str (t_build t); render_fill (t_src t); render_fill (t_patch t);
                         N_dec (N.of_nat (t_diffs t)); bool_str (t_hash t)]
  end.
Definition render_oN (o : option N) : str := match o with None => [45] | Some n => N_dec n end.
Definition render_what (w : what) : str := match w with WSource => [115] | WPatch => [112] end.
Definition render_event (ev : event) : str :=
  match ev with
  | EFetch w fb => s2l "fetch:" ++ render_what w ++ [58] ++ bool_str fb
  | ERename w => s2l "rename:" ++ render_what w
  | EHash w => s2l "hash:" ++ render_what w
  | EMkdir => s2l "mkdir"
  | EUnpack w b => s2l "unpack:" ++ render_what w ++ [58] ++ N_dec b
  | EUnpackTmp b => s2l "unpacktmp:" ++ N_dec b
  | ECopyTmp => s2l "copytmp"
  | ECopyCached => s2l "copycached"
  | ECopyPatchDir => s2l "copypatchdir"
  | EDiff i => s2l "diff:" ++ N_dec (N.of_nat i)
  | EWriteHash => s2l "writehash"
  | ERmtree => s2l "rmtree"
  end.
Definition render_res (r : R unit) : str :=
  match r with ROk _ => s2l "OK" | RRaise XWrap => s2l "WRAP" | RRaise XOther => s2l "OTHER" end.

(* the cleanup call is not a compared observable (the resulting tree is) *)
Definition not_rmtree (ev : event) : bool := match ev with ERmtree => false | _ => true end.

(* consecutive runs of resolve; each run has its own fault plan and a fresh trace/step counter *)
Fixpoint run_wraps (mk : list (nat * fault) -> env) (plans : list str) (d : dirstate) (cs cp : option N) : list str :=
  match plans with
  | [] => []
  | pl :: rest =>
      let e := mk (map dec_fault (items pl)) in
      let '(r, s) := resolve (fun b => b) e (mkM d cs cp 0 []) in
      join [1] [render_res r; join [32] (map render_event (filter not_rmtree (rev (m_trace s))));
                render_dir (m_dir s); render_oN (m_cache_src s); render_oN (m_cache_patch s)]
      :: run_wraps mk rest (m_dir s) (m_cache_src s) (m_cache_patch s)
  end.

Definition run_wrap (args : list str) : str :=
  match args with
  | wd :: en :: dfs :: ar :: plans :: fs0 :: _ =>
      let w := dec_wrapdef wd in
      match fields en, fields fs0 with
      | nd :: n1 :: n2 :: n3 :: n4 :: p1 :: p2 :: pd :: ct :: _, d0 :: c1 :: c2 :: _ =>
          let mk := fun fl => mkEnv w (is_T nd) (dec_oN n1) (dec_oN n2) (dec_oN n3) (dec_oN n4)
                                   (dec_oN p1) (dec_oN p2) (dec_obool' pd)
                                   (map dec_obool' (items dfs)) (dec_obool' ct)
                                   (map dec_arch (items ar)) fl in
          join [4] (run_wraps mk (fields plans) (dec_dir d0) (dec_oN c1) (dec_oN c2))
      | _, _ => s2l "?"
      end
  | _ => s2l "?"
  end.

Definition run (fn : str) (args : list str) : str :=
  if str_eqb fn (s2l "prog") then run_prog args
  else if str_eqb fn (s2l "policy") then run_policy args
  else if str_eqb fn (s2l "wrap") then run_wrap args
  else s2l "?".
