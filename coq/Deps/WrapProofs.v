(* Deps/WrapProofs.v — theorems about the wrap step machine (Deps/Wrap.v).
   Every statement is for an arbitrary digest function, wrap definition,
   contents of URLs / cache / packagefiles, archive table and fault plan. *)
From Coq Require Import Lia.
From MV Require Import Base.Strs Deps.Wrap.
Open Scope N_scope.

Section WrapFacts.
Variable digest : N -> N.
Variable e : env.

(* the bytes b may be used as the source / patch archive of this wrap: they hash to the
   recorded value; a file without recorded hash is tolerated only in packagefiles *)
Definition verified (w : what) (b : N) : Prop :=
  match hash_of e w with
  | Some h => digest b = h
  | None => has_url e w = false
  end.

Definition ev_ok (ev : event) : Prop :=
  match ev with
  | EUnpack w b => verified w b
  | EUnpackTmp b => verified WPatch b
  | EFetch _ _ => e_nodownload e = false
  | _ => True
  end.

Definition tr_ok (s : mst) : Prop := Forall ev_ok (m_trace s).

Lemma tick_ok ev s : tr_ok s -> ev_ok ev -> tr_ok (snd (tick e ev s)).
Proof. intros H Hev. unfold tr_ok, tick. cbn. constructor; assumption. Qed.

Lemma tick_dir ev s : m_dir (snd (tick e ev s)) = m_dir s.
Proof. reflexivity. Qed.

Lemma set_dir_ok s d : tr_ok s -> tr_ok (set_dir s d).
Proof. intros H; exact H. Qed.
Lemma set_cache_ok s w b : tr_ok s -> tr_ok (set_cache s w b).
Proof. intros H; destruct w; exact H. Qed.
Lemma set_cache_dir s w b : m_dir (set_cache s w b) = m_dir s.
Proof. destruct w; reflexivity. Qed.

(* ---------------------------------------------------------------- acquisition *)
Lemma download1_spec w fb s :
  tr_ok s ->
  let '(r, s') := download1 digest e w fb s in
  tr_ok s' /\ m_dir s' = m_dir s /\
  (forall b, r = ROk b -> exists h, hash_of e w = Some h /\ digest b = h).
Proof.
  intros Hs. unfold download1. destruct (e_nodownload e) eqn:End.
  { repeat split; auto; try discriminate. }
  destruct (tick e (EFetch w fb) s) as [f s1] eqn:Et.
  assert (H1 : tr_ok s1 /\ m_dir s1 = m_dir s).
  { pose proof (tick_ok (EFetch w fb) s Hs End) as X. rewrite Et in X.
    pose proof (tick_dir (EFetch w fb) s) as Y. rewrite Et in Y. auto. }
  destruct H1 as [H1 H2].
  destruct f; try (repeat split; auto; try discriminate).
  destruct (net e w fb) as [b|]; [|repeat split; auto; try discriminate].
  destruct (hash_of e w) as [h|]; [|repeat split; auto; try discriminate].
  destruct (N.eqb (digest b) h) eqn:Eh; [|repeat split; auto; try discriminate].
  repeat split; auto. intros b' Hb. inversion Hb; subst. exists h. split; [reflexivity|]. apply N.eqb_eq; exact Eh.
Qed.

Lemma rename_tail w (r : R N) s1 d :
  tr_ok s1 -> m_dir s1 = d ->
  (forall b, r = ROk b -> exists h, hash_of e w = Some h /\ digest b = h) ->
  let '(r', s') :=
    match r with
    | RRaise x => (RRaise x, s1)
    | ROk b =>
        let '(f, s2) := tick e (ERename w) s1 in
        match f with
        | NoFault => (ROk tt, set_cache s2 w b)
        | ff => (RRaise (exn_of ff), s2)
        end
    end in
  tr_ok s' /\ m_dir s' = d /\ (r' = ROk tt -> exists b, cache_of s' w = Some b /\ verified w b).
Proof.
  intros H1 H2 H3. destruct r as [b|x]; [|repeat split; auto; try discriminate].
  destruct (tick e (ERename w) s1) as [f s3] eqn:Et.
  assert (H : tr_ok s3 /\ m_dir s3 = d).
  { pose proof (tick_ok (ERename w) s1 H1 I) as X. rewrite Et in X.
    pose proof (tick_dir (ERename w) s1) as Y. rewrite Et in Y. cbn [snd] in *. split; [exact X|congruence]. }
  destruct H as [H4 H5].
  destruct f; try (repeat split; auto; try discriminate).
  - apply set_cache_ok; exact H4.
  - rewrite set_cache_dir; exact H5.
  - intros _. exists b. split; [destruct w; reflexivity|].
    destruct (H3 b eq_refl) as (h & Hh & Hd). unfold verified. rewrite Hh. exact Hd.
Qed.

Lemma download_spec w s :
  tr_ok s ->
  let '(r, s') := download digest e w s in
  tr_ok s' /\ m_dir s' = m_dir s /\
  (r = ROk tt -> exists b, cache_of s' w = Some b /\ verified w b).
Proof.
  intros Hs. unfold download.
  pose proof (download1_spec w false s Hs) as A.
  destruct (download1 digest e w false s) as [r1 s1].
  destruct A as (A1 & A2 & A3).
  destruct r1 as [b|[|]].
  - exact (rename_tail w (ROk b) s1 (m_dir s) A1 A2 A3).
  - destruct (e_nodownload e).
    { exact (rename_tail w (RRaise XWrap) s1 (m_dir s) A1 A2 A3). }
    destruct (has_fb e w).
    2:{ exact (rename_tail w (RRaise XWrap) s1 (m_dir s) A1 A2 A3). }
    pose proof (download1_spec w true s1 A1) as B. destruct (download1 digest e w true s1) as [r2 s2].
    destruct B as (B1 & B2 & B3).
    apply (rename_tail w r2 s2 (m_dir s) B1); [congruence|exact B3].
  - exact (rename_tail w (RRaise XOther) s1 (m_dir s) A1 A2 A3).
Qed.

Lemma check_hash_spec w b req s :
  tr_ok s ->
  let '(r, s') := check_hash digest e w b req s in
  tr_ok s' /\ m_dir s' = m_dir s /\ cache_of s' w = cache_of s w /\
  (r = ROk tt -> match hash_of e w with Some h => digest b = h | None => req = false end).
Proof.
  intros Hs. unfold check_hash. destruct (hash_of e w) as [h|].
  2:{ destruct req; repeat split; auto; try discriminate. }
  destruct (tick e (EHash w) s) as [f s1] eqn:Et.
  assert (H1 : tr_ok s1 /\ m_dir s1 = m_dir s /\ cache_of s1 w = cache_of s w).
  { pose proof (tick_ok (EHash w) s Hs I) as X. rewrite Et in X.
    unfold tick in Et. inversion Et; subst. repeat split; auto; destruct w; reflexivity. }
  destruct H1 as (H1 & H2 & H3).
  destruct f; try (repeat split; auto; try discriminate).
  destruct (N.eqb (digest b) h) eqn:Eh; [|repeat split; auto; try discriminate].
  repeat split; auto. intros _. apply N.eqb_eq; exact Eh.
Qed.

(* whatever _get_file_internal hands to unpack_archive is verified *)
Lemma gfi_spec w s :
  tr_ok s ->
  let '(r, s') := get_file_internal digest e w s in
  tr_ok s' /\ m_dir s' = m_dir s /\ (forall b, r = ROk b -> verified w b).
Proof.
  intros Hs. unfold get_file_internal. destruct (has_url e w) eqn:Eu.
  - destruct (cache_of s w) as [b|] eqn:Ec.
    + pose proof (check_hash_spec w b true s Hs) as A.
      destruct (check_hash digest e w b true s) as [r s1]. destruct A as (A1 & A2 & A3 & A4).
      destruct r as [[]|x]; [|repeat split; auto; try discriminate].
      repeat split; auto. intros b' Hb; inversion Hb; subst. unfold verified.
      specialize (A4 eq_refl). destruct (hash_of e w); [exact A4|discriminate].
    + pose proof (download_spec w s Hs) as A.
      destruct (download digest e w s) as [r s1]. destruct A as (A1 & A2 & A3).
      destruct r as [[]|x]; [|repeat split; auto; try discriminate].
      destruct (A3 eq_refl) as (b & Hb & Hv). rewrite Hb.
      repeat split; auto. intros b' Hb'; inversion Hb'; subst. exact Hv.
  - destruct (pf_of e w) as [b|]; [|repeat split; auto; try discriminate].
    pose proof (check_hash_spec w b false s Hs) as A.
    destruct (check_hash digest e w b false s) as [r s1]. destruct A as (A1 & A2 & A3 & A4).
    destruct r as [[]|x]; [|repeat split; auto; try discriminate].
    repeat split; auto. intros b' Hb; inversion Hb; subst. unfold verified.
    specialize (A4 eq_refl). destruct (hash_of e w); [exact A4|exact Eu].
Qed.

(* ---------------------------------------------------------------- preparing the tree *)
Definition src_done (d : dirstate) : Prop := exists hb, d = DDir (mkTree hb FFull FNone 0 false).

Lemma tick_spec ev s : tr_ok s -> ev_ok ev ->
  let '(f, s1) := tick e ev s in tr_ok s1 /\ m_dir s1 = m_dir s.
Proof. intros H Hev. cbn. split; [constructor; assumption|reflexivity]. Qed.

Lemma get_file_spec s :
  tr_ok s -> m_dir s = DAbsent ->
  let '(r, s') := get_file digest e s in
  tr_ok s' /\ (r = ROk tt -> src_done (m_dir s')).
Proof.
  intros Hs Hd. unfold get_file.
  pose proof (gfi_spec WSource s Hs) as A.
  destruct (get_file_internal digest e WSource s) as [r s1]. destruct A as (A1 & A2 & A3).
  destruct r as [b|x]; [|split; [exact A1|discriminate]].
  specialize (A3 b eq_refl).
  assert (B : exists s2 r2, (if wd_lead_missing (e_wrap e)
               then let '(f, s2) := tick e EMkdir s1 in
                    match f with
                    | NoFault => (ROk tt, set_dir s2 (DDir (mkTree false FNone FNone 0 false)))
                    | ff => (RRaise (exn_of ff), s2)
                    end
               else (ROk tt, s1)) = (r2, s2) /\ tr_ok s2 /\
             (r2 = ROk tt -> m_dir s2 = DAbsent \/ m_dir s2 = DDir (mkTree false FNone FNone 0 false))).
  { destruct (wd_lead_missing (e_wrap e)).
    - pose proof (tick_spec EMkdir s1 A1 I) as T. destruct (tick e EMkdir s1) as [f s2]. destruct T as [T1 T2].
      destruct f; eexists; eexists; (split; [reflexivity|]); split; auto; try discriminate.
    - eexists; eexists; split; [reflexivity|]. split; [exact A1|]. intros _. left. congruence. }
  destruct B as (s2 & r2 & -> & B1 & B2).
  destruct r2 as [[]|x]; [|split; [exact B1|discriminate]].
  specialize (B2 eq_refl).
  pose proof (tick_spec (EUnpack WSource b) s2 B1 A3) as T.
  destruct (tick e (EUnpack WSource b) s2) as [f s3]. destruct T as [T1 T2].
  destruct f, (arch_of e b) as [|hb]; (split; [try apply set_dir_ok; exact T1|]); try discriminate.
  intros _. cbn [set_dir m_dir]. rewrite T2.
  destruct B2 as [->| ->]; cbn [put_src]; eexists; reflexivity.
Qed.

Lemma or_fill_full a : or_fill a FFull = FFull.
Proof. destruct a; reflexivity. Qed.

Definition patched (t t' : tree) : Prop :=
  t_src t' = t_src t /\ t_diffs t' = t_diffs t /\
  (wd_patch (e_wrap e) <> PNone -> t_patch t' = FFull) /\
  (wd_patch (e_wrap e) = PNone -> t' = t).

Lemma put_patch_full t hb :
  wd_patch (e_wrap e) <> PNone ->
  exists t', put_patch (DDir t) hb FFull = DDir t' /\ patched t t'.
Proof.
  intros Hp. eexists. split; [reflexivity|]. unfold patched. cbn. rewrite or_fill_full. repeat split; auto. congruence.
Qed.

Lemma apply_patch_spec s t :
  tr_ok s -> m_dir s = DDir t ->
  let '(r, s') := apply_patch digest e s in
  tr_ok s' /\ (r = ROk tt -> exists t', m_dir s' = DDir t' /\ patched t t').
Proof.
  intros Hs Hd. unfold apply_patch. destruct (wd_patch (e_wrap e)) as [|u fbk h| |] eqn:Ep.
  - split; [exact Hs|]. intros _. exists t. split; [exact Hd|]. unfold patched. rewrite Ep. repeat split; auto. congruence.
  - pose proof (gfi_spec WPatch s Hs) as A.
    destruct (get_file_internal digest e WPatch s) as [r s1]. destruct A as (A1 & A2 & A3).
    destruct r as [b|x]; [|split; [exact A1|discriminate]].
    specialize (A3 b eq_refl).
    pose proof (tick_spec (EUnpack WPatch b) s1 A1 A3) as T.
    destruct (tick e (EUnpack WPatch b) s1) as [f s2]. destruct T as [T1 T2].
    assert (Hne : wd_patch (e_wrap e) <> PNone) by congruence.
    assert (Hfull : forall sx hb, m_dir sx = DDir t \/ (exists t0, m_dir sx = DDir t0 /\ t_src t0 = t_src t /\ t_diffs t0 = t_diffs t) ->
               exists t', m_dir (set_dir sx (put_patch (m_dir sx) hb FFull)) = DDir t' /\ patched t t').
    { intros sx hb [Hx|(t0 & Hx & H1 & H2)]; rewrite Hx; cbn [set_dir m_dir put_patch]; eexists; (split; [reflexivity|]);
        unfold patched; cbn; rewrite or_fill_full; repeat split; auto; congruence. }
    assert (Hretry : forall s2', tr_ok s2' ->
              (m_dir s2' = DDir t \/ exists t0, m_dir s2' = DDir t0 /\ t_src t0 = t_src t /\ t_diffs t0 = t_diffs t) ->
              let '(r, s') :=
                (let '(f3, s3) := tick e (EUnpackTmp b) s2' in
                 match f3, arch_of e b with
                 | NoFault, AGood hb =>
                     let '(f4, s4) := tick e ECopyTmp s3 in
                     match f4 with
                     | NoFault => (ROk tt, set_dir s4 (put_patch (m_dir s4) hb FFull))
                     | ff => (RRaise (exn_of ff), set_dir s4 (put_patch (m_dir s4) hb FPartial))
                     end
                 | NoFault, ABad => (RRaise XOther, s3)
                 | ff, _ => (RRaise (exn_of ff), s3)
                 end) in
              tr_ok s' /\ (r = ROk tt -> exists t', m_dir s' = DDir t' /\ patched t t')).
    { intros s2' H2 Hdir.
      pose proof (tick_spec (EUnpackTmp b) s2' H2 A3) as U.
      destruct (tick e (EUnpackTmp b) s2') as [f3 s3]. destruct U as [U1 U2].
      destruct f3, (arch_of e b) as [|hb]; try (split; [exact U1|discriminate]).
      pose proof (tick_spec ECopyTmp s3 U1 I) as V.
      destruct (tick e ECopyTmp s3) as [f4 s4]. destruct V as [V1 V2].
      destruct f4; try (split; [apply set_dir_ok; exact V1|discriminate]).
      split; [apply set_dir_ok; exact V1|]. intros _. apply Hfull. rewrite V2, U2. exact Hdir. }
    destruct f, (arch_of e b) as [|hb] eqn:Ea.
    + apply Hretry; [exact T1|left; congruence].
    + split; [apply set_dir_ok; exact T1|]. intros _. apply Hfull. left. congruence.
    + apply Hretry; [exact T1|left; congruence].
    + apply Hretry; [apply set_dir_ok; exact T1|]. right. cbn [set_dir m_dir]. rewrite T2, A2, Hd. cbn [put_patch].
      eexists. split; [reflexivity|]. cbn. auto.
    + apply Hretry; [exact T1|left; congruence].
    + apply Hretry; [apply set_dir_ok; exact T1|]. right. cbn [set_dir m_dir]. rewrite T2, A2, Hd. cbn [put_patch].
      eexists. split; [reflexivity|]. cbn. auto.
  - destruct (e_pf_patchdir e) as [hb|]; [|split; [exact Hs|discriminate]].
    pose proof (tick_spec ECopyPatchDir s Hs I) as T.
    destruct (tick e ECopyPatchDir s) as [f s1]. destruct T as [T1 T2].
    destruct f; try (split; [apply set_dir_ok; exact T1|discriminate]).
    split; [apply set_dir_ok; exact T1|]. intros _. cbn [set_dir m_dir]. rewrite T2, Hd.
    apply put_patch_full. congruence.
  - split; [exact Hs|discriminate].
Qed.

Lemma apply_diffs_spec l : forall i s t,
  tr_ok s -> m_dir s = DDir t ->
  let '(r, s') := apply_diffs e i l s in
  tr_ok s' /\ (r = ROk tt -> exists t', m_dir s' = DDir t' /\ t_src t' = t_src t /\ t_patch t' = t_patch t /\
                               t_diffs t' = (t_diffs t + length l)%nat).
Proof.
  induction l as [|[ok|] r IH]; intros i s t Hs Hd; cbn [apply_diffs].
  - split; [exact Hs|]. intros _. exists t. repeat split; auto; cbn; lia.
  - pose proof (tick_spec (EDiff i) s Hs I) as T.
    destruct (tick e (EDiff i) s) as [f s1]. destruct T as [T1 T2].
    destruct f; try (split; [exact T1|discriminate]).
    destruct ok; [|split; [exact T1|discriminate]].
    assert (Hd1 : m_dir (set_dir s1 (put_diff (m_dir s1))) = DDir (mkTree (t_build t) (t_src t) (t_patch t) (S (t_diffs t)) (t_hash t))).
    { cbn [set_dir m_dir]. rewrite T2, Hd. reflexivity. }
    pose proof (IH (S i) _ _ (set_dir_ok s1 _ T1) Hd1) as X.
    destruct (apply_diffs e (S i) r (set_dir s1 (put_diff (m_dir s1)))) as [r' s'].
    destruct X as [X1 X2]. split; [exact X1|]. intros Hr. destruct (X2 Hr) as (t' & E1 & E2 & E3 & E4).
    exists t'. cbn in *. repeat split; auto; lia.
  - split; [exact Hs|discriminate].
Qed.

(* source complete, patch overlay complete (if the wrap has one), every diff applied *)
Definition complete (t : tree) : Prop :=
  t_src t = FFull /\ (wd_patch (e_wrap e) <> PNone -> t_patch t = FFull) /\
  t_diffs t = length (e_diff_files e).

Lemma prepare_spec s :
  tr_ok s -> m_dir s = DAbsent ->
  let '(r, s') := prepare digest e s in
  tr_ok s' /\ (r = ROk tt -> exists t, m_dir s' = DDir t /\ complete t).
Proof.
  intros Hs Hd. unfold prepare.
  assert (A : exists r1 s1,
     match e_cached_tree e with
     | Some hb => let '(f, s1) := tick e ECopyCached s in
                  match f with
                  | NoFault => (ROk tt, set_dir s1 (put_src (m_dir s1) hb FFull))
                  | ff => (RRaise (exn_of ff), set_dir s1 (put_src (m_dir s1) hb FPartial))
                  end
     | None => get_file digest e s
     end = (r1, s1) /\ tr_ok s1 /\ (r1 = ROk tt -> src_done (m_dir s1))).
  { destruct (e_cached_tree e) as [hb|].
    - pose proof (tick_spec ECopyCached s Hs I) as T.
      destruct (tick e ECopyCached s) as [f s1]. destruct T as [T1 T2].
      destruct f; eexists; eexists; (split; [reflexivity|]); (split; [apply set_dir_ok; exact T1|]); try discriminate.
      intros _. cbn [set_dir m_dir]. rewrite T2, Hd. eexists; reflexivity.
    - pose proof (get_file_spec s Hs Hd) as G. destruct (get_file digest e s) as [r1 s1].
      eexists; eexists; split; [reflexivity|exact G]. }
  destruct A as (r1 & s1 & -> & A1 & A2).
  destruct r1 as [[]|x]; [|split; [exact A1|discriminate]].
  destruct (A2 eq_refl) as [hb Hsrc].
  pose proof (apply_patch_spec s1 _ A1 Hsrc) as P.
  destruct (apply_patch digest e s1) as [r2 s2]. destruct P as [P1 P2].
  destruct r2 as [[]|x]; [|split; [exact P1|discriminate]].
  destruct (P2 eq_refl) as (t' & Ht' & Q1 & Q2 & Q3 & Q4).
  pose proof (apply_diffs_spec (e_diff_files e) 0%nat s2 t' P1 Ht') as D.
  destruct (apply_diffs e 0 (e_diff_files e) s2) as [r3 s3]. destruct D as [D1 D2].
  split; [exact D1|]. intros Hr. destruct (D2 Hr) as (t3 & E0 & E1 & E2 & E3).
  exists t3. split; [exact E0|]. unfold complete. rewrite E1, E2, E3, Q1, Q2. cbn. repeat split; auto.
Qed.

(* ---------------------------------------------------------------- _resolve *)
Definition good_dir (d : dirstate) : Prop := d = DAbsent \/ exists t, d = DDir t /\ complete t.

Lemma complete_put_hash t : complete t -> complete (mkTree (t_build t) (t_src t) (t_patch t) (t_diffs t) true).
Proof. intros H; exact H. Qed.

(* Every step that _resolve takes keeps the trace verified; if it starts without a
   directory it ends with none or with a completely prepared one; it returns only
   with a completely prepared tree that has its build file. *)
Lemma resolve_spec s :
  tr_ok s -> good_dir (m_dir s) ->
  let '(r, s') := resolve digest e s in
  tr_ok s' /\ good_dir (m_dir s') /\
  (r = ROk tt -> exists t, m_dir s' = DDir t /\ complete t /\ t_build t = true).
Proof.
  intros Hs Hg. unfold resolve.
  destruct (has_buildfile (m_dir s)) eqn:Hb.
  { split; [exact Hs|]. split; [exact Hg|]. intros _.
    destruct Hg as [Hg|(t & Ht & Hc)]; [rewrite Hg in Hb; discriminate|].
    exists t. rewrite Ht in Hb. auto. }
  assert (A : exists r1 s1,
     match m_dir s with
     | DNotDir => (RRaise XWrap, s)
     | DDir _ => (ROk tt, s)
     | DAbsent =>
         match prepare digest e s with
         | (RRaise x, s1) =>
             (RRaise x, mkM DAbsent (m_cache_src s1) (m_cache_patch s1) (m_ctr s1) (ERmtree :: m_trace s1))
         | ok => ok
         end
     end = (r1, s1) /\ tr_ok s1 /\ good_dir (m_dir s1)).
  { destruct Hg as [Hg|(t & Ht & Hc)].
    - rewrite Hg. pose proof (prepare_spec s Hs Hg) as P.
      destruct (prepare digest e s) as [r1 s1]. destruct P as [P1 P2].
      destruct r1 as [[]|x].
      + eexists; eexists; split; [reflexivity|]. split; [exact P1|]. right. apply P2; reflexivity.
      + eexists; eexists; split; [reflexivity|]. split; [constructor; [exact I|exact P1]|]. left; reflexivity.
    - rewrite Ht. eexists; eexists; split; [reflexivity|]. split; [exact Hs|]. right. exists t. rewrite Ht. auto. }
  destruct A as (r1 & s1 & -> & A1 & A2).
  destruct r1 as [[]|x]; [|split; [exact A1|split; [exact A2|discriminate]]].
  destruct (has_buildfile (m_dir s1)) eqn:Hb1; cbn [negb].
  2:{ split; [exact A1|split; [exact A2|discriminate]]. }
  pose proof (tick_spec EWriteHash s1 A1 I) as T.
  destruct (tick e EWriteHash s1) as [f s2]. destruct T as [T1 T2].
  destruct A2 as [A2|(t & Ht & Hc)]; [rewrite A2 in Hb1; discriminate|].
  destruct f.
  - split; [apply set_dir_ok; exact T1|]. cbn [set_dir m_dir]. rewrite T2, Ht. cbn [put_hash].
    split; [right; eexists; split; [reflexivity|exact Hc]|].
    intros _. eexists. split; [reflexivity|]. split; [exact Hc|]. rewrite Ht in Hb1. exact Hb1.
  - split; [exact T1|]. split; [right; exists t; rewrite T2; auto|discriminate].
  - split; [exact T1|]. split; [right; exists t; rewrite T2; auto|discriminate].
Qed.

(* a failure anywhere in fetch -> verify -> unpack -> patch -> diff removes what the run created *)
Lemma resolve_cleanup s x s1 :
  m_dir s = DAbsent -> prepare digest e s = (RRaise x, s1) ->
  fst (resolve digest e s) = RRaise x /\ m_dir (snd (resolve digest e s)) = DAbsent.
Proof.
  intros Hd Hp. unfold resolve. rewrite Hd. cbn [has_buildfile]. rewrite Hp. split; reflexivity.
Qed.

(* an existing directory with its build file is used as it is: nothing fetched, nothing unpacked *)
Lemma resolve_existing s : has_buildfile (m_dir s) = true -> resolve digest e s = (ROk tt, s).
Proof. intros H. unfold resolve. rewrite H. reflexivity. Qed.

Lemma resolve_trace s : tr_ok s -> tr_ok (snd (resolve digest e s)).
Proof.
  intros Hs. unfold resolve. destruct (has_buildfile (m_dir s)); [exact Hs|].
  assert (A : exists r1 s1,
     match m_dir s with
     | DNotDir => (RRaise XWrap, s)
     | DDir _ => (ROk tt, s)
     | DAbsent =>
         match prepare digest e s with
         | (RRaise x, s1) =>
             (RRaise x, mkM DAbsent (m_cache_src s1) (m_cache_patch s1) (m_ctr s1) (ERmtree :: m_trace s1))
         | ok => ok
         end
     end = (r1, s1) /\ tr_ok s1).
  { destruct (m_dir s) eqn:Hd; try (eexists; eexists; split; [reflexivity|exact Hs]).
    pose proof (prepare_spec s Hs Hd) as P. destruct (prepare digest e s) as [r1 s1]. destruct P as [P1 _].
    destruct r1 as [[]|x]; eexists; eexists; (split; [reflexivity|]); [exact P1|constructor; [exact I|exact P1]]. }
  destruct A as (r1 & s1 & -> & A1).
  destruct r1 as [[]|x]; [|exact A1].
  destruct (negb (has_buildfile (m_dir s1))); [exact A1|].
  pose proof (tick_spec EWriteHash s1 A1 I) as T.
  destruct (tick e EWriteHash s1) as [f s2]. destruct T as [T1 _].
  destruct f; cbn [snd]; exact T1.
Qed.

End WrapFacts.

(* ================================================================== the theorems *)
Definition fresh (d : dirstate) (c1 c2 : option N) : mst := mkM d c1 c2 0 [].

(* Whatever the wrap, the contents of every location and the faults: every byte string
   handed to unpack_archive hashes to the value the wrap records (a file without a recorded
   hash is accepted from packagefiles only); holds for every digest function. *)
Theorem unpacked_only_if_verified digest e d c1 c2 r s' :
  resolve digest e (fresh d c1 c2) = (r, s') ->
  forall w b, (In (EUnpack w b) (m_trace s') -> verified digest e w b) /\
              (In (EUnpackTmp b) (m_trace s') -> verified digest e WPatch b).
Proof.
  intros H w b. pose proof (resolve_trace digest e (fresh d c1 c2) (Forall_nil _)) as T. rewrite H in T.
  cbn [snd] in T. unfold tr_ok in T. rewrite Forall_forall in T.
  split; intros Hin; exact (T _ Hin).
Qed.

(* wrap_mode=nodownload: no URL is ever opened *)
Theorem nodownload_never_fetches digest e d c1 c2 r s' :
  e_nodownload e = true -> resolve digest e (fresh d c1 c2) = (r, s') ->
  forall w fb, ~ In (EFetch w fb) (m_trace s').
Proof.
  intros Hn H w fb Hin. pose proof (resolve_trace digest e (fresh d c1 c2) (Forall_nil _)) as T. rewrite H in T.
  cbn [snd] in T. unfold tr_ok in T. rewrite Forall_forall in T. specialize (T _ Hin). cbn in T. congruence.
Qed.

(* a failing fetch / verify / unpack / patch / diff step leaves no directory behind *)
Theorem failed_preparation_removes_directory digest e c1 c2 x s1 :
  prepare digest e (fresh DAbsent c1 c2) = (RRaise x, s1) ->
  fst (resolve digest e (fresh DAbsent c1 c2)) = RRaise x /\
  m_dir (snd (resolve digest e (fresh DAbsent c1 c2))) = DAbsent.
Proof. intros H. apply (resolve_cleanup digest e (fresh DAbsent c1 c2) x s1 eq_refl H). Qed.

(* consecutive runs: the definition of the wrap stays, everything else (URL contents,
   package cache, packagefiles, wrap_mode, faults) may change from run to run *)
Definition same_def (e e0 : env) : Prop := e_wrap e = e_wrap e0 /\ e_diff_files e = e_diff_files e0.

Fixpoint dir_after (digest : N -> N) (runs : list (env * option N * option N)) (d : dirstate) : dirstate :=
  match runs with
  | [] => d
  | (e, c1, c2) :: r => dir_after digest r (m_dir (snd (resolve digest e (fresh d c1 c2))))
  end.

Lemma complete_same e e0 t : same_def e e0 -> complete e t -> complete e0 t.
Proof. intros [H1 H2]. unfold complete. rewrite H1, H2. auto. Qed.

Lemma good_dir_same e e0 d : same_def e e0 -> good_dir e d -> good_dir e0 d.
Proof.
  intros Hs [H|(t & Ht & Hc)]; [left; exact H|right; exists t; split; [exact Ht|eapply complete_same; eauto]].
Qed.

Lemma same_def_sym e e0 : same_def e e0 -> same_def e0 e.
Proof. intros [A B]; split; auto. Qed.

Lemma dir_after_good digest e0 runs : forall d,
  Forall (fun r => same_def (fst (fst r)) e0) runs -> good_dir e0 d -> good_dir e0 (dir_after digest runs d).
Proof.
  induction runs as [|[[e c1] c2] r IH]; intros d Hf Hg; [exact Hg|].
  inversion Hf as [|? ? Hs Hr]; subst. cbn [dir_after fst] in *. apply IH; [exact Hr|].
  pose proof (resolve_spec digest e (fresh d c1 c2) (Forall_nil _) (good_dir_same _ _ _ (same_def_sym _ _ Hs) Hg)) as X.
  destruct (resolve digest e (fresh d c1 c2)) as [r0 s0]. destruct X as (_ & X & _).
  eapply good_dir_same; eauto.
Qed.

(* However earlier runs ended - under any faults - a run that returns a subproject
   directory returns one whose source tree is complete, whose patch overlay is
   complete and on which every diff file has been applied, with its build file. *)
Theorem never_accepts_half_prepared digest e0 runs e c1 c2 s' :
  Forall (fun r => same_def (fst (fst r)) e0) runs -> same_def e e0 ->
  resolve digest e (fresh (dir_after digest runs DAbsent) c1 c2) = (ROk tt, s') ->
  exists t, m_dir s' = DDir t /\ complete e0 t /\ t_build t = true.
Proof.
  intros Hf Hs H.
  pose proof (dir_after_good digest e0 runs DAbsent Hf (or_introl eq_refl)) as G.
  pose proof (resolve_spec digest e (fresh (dir_after digest runs DAbsent) c1 c2) (Forall_nil _)
                (good_dir_same _ _ _ (same_def_sym _ _ Hs) G)) as X.
  rewrite H in X. destruct X as (_ & _ & X). destruct (X eq_refl) as (t & A & B & C).
  exists t. split; [exact A|]. split; [eapply complete_same; eauto|exact C].
Qed.

(* an existing subproject directory with a build file is used untouched *)
Theorem existing_directory_untouched digest e t c1 c2 :
  t_build t = true -> resolve digest e (fresh (DDir t) c1 c2) = (ROk tt, fresh (DDir t) c1 c2).
Proof. intros H. apply resolve_existing. exact H. Qed.

(* The code as it was (cleanup only around patch/diff) does not have this property:
   source from a URL with the right hash, the unpack step fails half-way (tick 2), the
   partial tree stays; the next run finds a directory with meson.build and returns it. *)
Definition e_wit (faults : list (nat * fault)) : env :=
  mkEnv (mkWrapdef true false (Some 1) false PNone) false (Some 1) None None None None None None [] None
        [(1, AGood true)] faults.

Theorem unfixed_resolve_accepts_half_prepared :
  exists e1 e2 s1 s2 t,
    same_def e1 e2 /\
    resolve_unfixed (fun b => b) e1 (fresh DAbsent None None) = (RRaise XWrap, s1) /\
    resolve_unfixed (fun b => b) e2 (fresh (m_dir s1) (m_cache_src s1) (m_cache_patch s1)) = (ROk tt, s2) /\
    m_dir s2 = DDir t /\ t_src t = FPartial.
Proof.
  exists (e_wit [(2%nat, FWrap)]), (e_wit []). eexists. eexists. eexists.
  split; [split; reflexivity|]. split; [vm_compute; reflexivity|].
  split; [vm_compute; reflexivity|]. split; reflexivity.
Qed.
