(* FS/Replace.v — model of the "write to a temporary, then replace" primitives that
   meson uses for configure-time outputs (C06).  Model only, no proofs.

   Anchors (mesonbuild, pinned tree):
     utils/universal.py:1835-1848   replace_if_different
     utils/universal.py:1752-1770   do_conf_file        (dst~ then replace_if_different)
     utils/universal.py:1821-1832   dump_conf_header    (ofilename~ then replace_if_different)
     interpreter/interpreter.py:2916-2920  configure_file(command:, capture:)  (same pattern)
     backend/ninjabackend.py:713-776  build.ninja written to build.ninja~ then os.replace
     mintro.py:579-588             write_intro_info (tmp_dump.json then os.replace)

   A file system is a finite map path -> (content, mtime) plus a logical clock.  Every
   completed write of a file stamps it with the current clock value and advances the
   clock, so two writes never share a stamp: "mtime unchanged" in the model is exactly
   "the inode's data was not rewritten", which is what stat() observes.  os.replace moves
   the source's (content, mtime) onto the destination, as rename(2) does. *)
From MV Require Import Base.Strs.
Open Scope N_scope.

Record file := mkfile { fdata : str; fmtime : N }.

Definition files := list (str * file).

Record fs := mkfs { ffiles : files; fnow : N }.

Fixpoint lookup (p : str) (l : files) : option file :=
  match l with
  | [] => None
  | (q, f) :: r => if str_eqb p q then Some f else lookup p r
  end.

Fixpoint remove (p : str) (l : files) : files :=
  match l with
  | [] => []
  | (q, f) :: r => if str_eqb p q then remove p r else (q, f) :: remove p r
  end.

Definition put (p : str) (f : file) (l : files) : files := (p, f) :: remove p l.

Definition fs_lookup (p : str) (s : fs) : option file := lookup p (ffiles s).

(* results of an operation: a new state or an escaping Python exception *)
Inductive res :=
| Ok (s : fs)
| PyErr (cls : str) (s : fs).     (* state at the moment the exception escapes *)

Definition FileNotFoundError : str := s2l "FileNotFoundError".

(* with open(p, 'w') as f: f.write(c)   -- create or truncate, then write, then close *)
Definition write_file (p c : str) (s : fs) : fs :=
  mkfs (put p (mkfile c (fnow s)) (ffiles s)) (fnow s + 1).

(* os.replace(src, dst): atomic rename; src must exist; src = dst is a no-op *)
Definition os_replace (src dst : str) (s : fs) : res :=
  match lookup src (ffiles s) with
  | None => PyErr FileNotFoundError s
  | Some f =>
      if str_eqb src dst then Ok s
      else Ok (mkfs (put dst f (remove src (ffiles s))) (fnow s))
  end.

(* os.unlink(p) *)
Definition os_unlink (p : str) (s : fs) : res :=
  match lookup p (ffiles s) with
  | None => PyErr FileNotFoundError s
  | Some _ => Ok (mkfs (remove p (ffiles s)) (fnow s))
  end.

(* universal.py:1835-1848
     different = True
     try:
         with open(dst, 'rb') as f1, open(dst_tmp, 'rb') as f2:
             if f1.read() == f2.read(): different = False
     except FileNotFoundError: pass
     if different: os.replace(dst_tmp, dst)
     else:         os.unlink(dst_tmp)                                         *)
Definition replace_if_different (dst tmp : str) (s : fs) : res :=
  let different :=
    match lookup dst (ffiles s), lookup tmp (ffiles s) with
    | Some f1, Some f2 => negb (str_eqb (fdata f1) (fdata f2))
    | _, _ => true                       (* FileNotFoundError swallowed *)
    end in
  if different then os_replace tmp dst s else os_unlink tmp s.

Definition tilde (p : str) : str := p ++ [126].     (* p + '~' *)

(* the configure_file family: write dst~ completely, then replace_if_different(dst, dst~)
   (universal.py:1761-1769, 1825-1832; interpreter.py:2916-2920) *)
Definition conf_write (dst c : str) (s : fs) : res :=
  replace_if_different dst (tilde dst) (write_file (tilde dst) c s).

(* ninjabackend.py:714-776: tempfilename = outfilename + '~'; write all; os.replace *)
Definition ninja_write (dst c : str) (s : fs) : res :=
  os_replace (tilde dst) dst (write_file (tilde dst) c s).

(* the states the file system passes through during ninja_write (for atomicity) *)
Definition ninja_write_trace (dst c : str) (s : fs) : list fs :=
  let s1 := write_file (tilde dst) c s in
  match os_replace (tilde dst) dst s1 with
  | Ok s2 => [s; s1; s2]
  | PyErr _ s2 => [s; s1; s2]
  end.

(* mintro.py:579-588: for kind, data in intro_info: write tmp_dump.json; os.replace(tmp, out) *)
Definition intro_tmp (dir : str) : str := dir ++ s2l "/tmp_dump.json".

Fixpoint intro_write (dir : str) (items : list (str * str)) (s : fs) : res :=
  match items with
  | [] => Ok s
  | (out, c) :: r =>
      match os_replace (intro_tmp dir) out (write_file (intro_tmp dir) c s) with
      | Ok s' => intro_write dir r s'
      | e => e
      end
  end.

(* A configure run, as far as its replace_if_different outputs are concerned: the outputs
   are written one after the other in the order the build files produce them. *)
Fixpoint configure (outs : list (str * str)) (s : fs) : res :=
  match outs with
  | [] => Ok s
  | (dst, c) :: r =>
      match conf_write dst c s with
      | Ok s' => configure r s'
      | e => e
      end
  end.

Definition res_state (r : res) : fs := match r with Ok s => s | PyErr _ s => s end.
Definition is_ok (r : res) : bool := match r with Ok _ => true | PyErr _ _ => false end.

(* n further configure runs, one after the other (a build directory's history of no-change
   reconfigurations) *)
Fixpoint configure_n (n : nat) (outs : list (str * str)) (s : fs) : res :=
  match n with
  | O => Ok s
  | S k => match configure outs s with
           | Ok s' => configure_n k outs s'
           | e => e
           end
  end.
