(* Arglist/Tables.v — the classification tables as data.  Transcribed from the class
   attributes; harness/check_C13.py compares every field with the LIVE attributes of
   the classes in /repo on each run (entry point "tables"), so an edited table shows
   up as a broken correspondence.  No proofs in this file. *)
From MV Require Import Base.Strs Arglist.Model.
Open Scope N_scope.

(* arglist.py:19,92 *)
Definition unixy_internal_libs : list str :=
  map s2l ["m"; "c"; "pthread"; "dl"; "rt"; "execinfo"]%string.
Definition always_dedup : list str := map (fun l => s2l "-l" ++ l) unixy_internal_libs.

(* arglist.py:73-92 CompilerArgs *)
Definition base_tables : tables := mktables
  [] [] [] []
  []
  (map s2l [".lib"; ".dll"; ".so"; ".dylib"; ".a"]%string)
  []
  always_dedup.

(* clike.py:62-69 CLikeCompilerArgs *)
Definition clike_tables : tables := mktables
  (map s2l ["-I"; "-L"]%string)
  (map s2l ["-I"; "-isystem"; "-L"; "-D"; "-U"]%string)
  [] []
  (map s2l ["-l"; "-Wl,-l"; "-Wl,-rpath,"; "-Wl,-rpath-link,"]%string)
  (map s2l [".lib"; ".dll"; ".so"; ".dylib"; ".a"]%string)
  (map s2l ["-c"; "-S"; "-E"; "-pipe"; "-pthread"; "-Wl,--export-dynamic"]%string)
  always_dedup.

(* compilers/d.py:375-377 DCompilerArgs *)
Definition d_tables : tables := mktables
  (map s2l ["-I"; "-L"]%string)
  (map s2l ["-I"]%string)
  [] []
  []
  (map s2l [".lib"; ".dll"; ".so"; ".dylib"; ".a"]%string)
  []
  always_dedup.

Definition clike_cd : str -> dedup := can_dedup clike_tables.
Definition clike_sp : str -> bool := should_prepend clike_tables.
