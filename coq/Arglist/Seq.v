(* Arglist/Seq.v — C13: the one-step clauses lifted to any number of increments.
   eager_iadds l [b1; ...; bn] is the eager meaning of  x = C(l); x += b1; ...; x += bn. *)
From MV Require Import Base.Strs Base.LexFacts Arglist.Model Arglist.Tables Arglist.Ops Arglist.Eager Arglist.Proofs.
From Coq Require Import Lia.
Open Scope N_scope.

Definition eager_iadds (cd : str -> dedup) (sp : str -> bool) (l : list str) (bs : list (list str)) : list str :=
  fold_left (eager_iadd cd sp) bs l.

(* the lazy class, fed the increments and read once at the end, returns eager_iadds *)
Lemma erun_iadds K bs : forall l,
  erun K l (map OIadd bs) = repeat ONone (length bs) ++ [OList (eager_iadds (c_cd K) (c_sp K) l bs)].
Proof. induction bs as [|b bs IH]; intros l; simpl; [reflexivity|]. rewrite IH. reflexivity. Qed.
Theorem lazy_iadds K l bs :
  run_ops K (init l) (map OIadd bs) = repeat ONone (length bs) ++ [OList (eager_iadds (c_cd K) (c_sp K) l bs)].
Proof. rewrite lazy_equals_eager. apply erun_iadds. Qed.

Section Seq.
  Variable cd : str -> dedup.
  Variable sp : str -> bool.
  Notation eiadd := (eager_iadd cd sp).
  Notation eiadds := (eager_iadds cd sp).
  Notation is_ov := (is_ov cd).

  (* no argument is lost or invented, over any number of increments *)
  Theorem iadds_In x bs : forall l, In x (eiadds l bs) <-> In x l \/ exists b, In b bs /\ In x b.
  Proof.
    induction bs as [|b bs IH]; intros l; unfold eager_iadds; simpl.
    - split; [auto | intros [H|[b [[] _]]]; exact H].
    - fold (eiadds (eiadd l b) bs). rewrite IH, eager_iadd_In. split.
      + intros [[H|H]|[b' [H1 H2]]]; [left; exact H | right; exists b; auto | right; exists b'; auto].
      + intros [H|[b' [[->|H1] H2]]]; [left; left; exact H | left; right; exact H2 | right; exists b'; auto].
  Qed.

  (* never-de-duplicated arguments keep order and multiplicity, over any number of increments *)
  Theorem iadds_nodedup_order bs : (forall a, is_nodedup cd a = true -> sp a = false) -> forall l,
    filter (is_nodedup cd) (eiadds l bs) = filter (is_nodedup cd) l ++ flat_map (filter (is_nodedup cd)) bs.
  Proof.
    intros H. induction bs as [|b bs IH]; intros l; unfold eager_iadds; simpl; [rewrite app_nil_r; reflexivity|].
    fold (eiadds (eiadd l b) bs). rewrite IH, (nodedup_order cd sp l b H), <- app_assoc. reflexivity.
  Qed.

  (* one more increment that does not mention y leaves y where it is: in front of it come
     only older front elements and prepended arguments of the increment, behind it only
     older back elements and appended arguments of the increment *)
  Lemma iadd_keeps_position X y S b : ~ In y b ->
    exists X' S', eiadd (X ++ y :: S) b = X' ++ y :: S'
      /\ (forall x, In x X' -> In x X \/ (In x b /\ sp x = true))
      /\ (forall x, In x S' -> In x S \/ (In x b /\ sp x = false)).
  Proof.
    intros Ny. unfold eager_iadd. set (b' := ufilter cd sp (X ++ y :: S) b).
    assert (SUB : forall x, In x b' -> In x b) by (intros x Hx; eapply uf_sub; exact Hx).
    rewrite filter_app. cbn [filter].
    assert (G : overridden_by cd b' y = false).
    { unfold overridden_by. destruct (str_mem y b') eqn:M; [|apply andb_false_r].
      apply str_mem_In in M. apply SUB in M. contradiction. }
    rewrite G. cbn [negb].
    exists (keep_first cd [] (filter sp b') ++ filter (fun a => negb (overridden_by cd b' a)) X),
           (filter (fun a => negb (overridden_by cd b' a)) S ++ keep_last cd (filter (fun a => negb (sp a)) b')).
    split; [rewrite <- !app_assoc; reflexivity|]. split.
    - intros x Hx. apply in_app_or in Hx. destruct Hx as [Hx|Hx].
      + apply kf_In in Hx. apply filter_In in Hx. destruct Hx as [Hx Px]. right. split; [apply SUB; exact Hx | exact Px].
      + apply filter_In in Hx. left. tauto.
    - intros x Hx. apply in_app_or in Hx. destruct Hx as [Hx|Hx].
      + apply filter_In in Hx. left. tauto.
      + apply kl_In in Hx. apply filter_In in Hx. destruct Hx as [Hx Px]. right.
        split; [apply SUB; exact Hx | destruct (sp x); [discriminate | reflexivity]].
  Qed.

  Lemma iadds_keeps_position later : forall X y S,
    (forall b, In b later -> ~ In y b) ->
    exists X' S', eiadds (X ++ y :: S) later = X' ++ y :: S'
      /\ (forall x, In x X' -> In x X \/ (sp x = true /\ exists b, In b later /\ In x b))
      /\ (forall x, In x S' -> In x S \/ (sp x = false /\ exists b, In b later /\ In x b)).
  Proof.
    induction later as [|b later IH]; intros X y S H.
    - exists X, S. split; [reflexivity|]. split; auto.
    - unfold eager_iadds. cbn [fold_left].
      destruct (iadd_keeps_position X y S b (H b (or_introl eq_refl))) as [X1 [S1 [E [HX HS]]]].
      rewrite E. fold (eiadds (X1 ++ y :: S1) later).
      destruct (IH X1 y S1) as [X2 [S2 [E2 [HX2 HS2]]]]; [intros b' Hb'; apply H; right; exact Hb'|].
      exists X2, S2. split; [exact E2|]. split.
      + intros x Hx. destruct (HX2 x Hx) as [Hx1|[P [b' [Hb' Hxb]]]].
        * destruct (HX x Hx1) as [?|[? ?]]; [left; assumption | right; split; [assumption | exists b; split; [left; reflexivity | assumption]]].
        * right. split; [exact P | exists b'; split; [right; exact Hb' | exact Hxb]].
      + intros x Hx. destruct (HS2 x Hx) as [Hx1|[P [b' [Hb' Hxb]]]].
        * destruct (HS x Hx1) as [?|[? ?]]; [left; assumption | right; split; [assumption | exists b; split; [left; reflexivity | assumption]]].
        * right. split; [exact P | exists b'; split; [right; exact Hb' | exact Hxb]].
  Qed.

  (* "for duplicated settings the later-added one takes effect", appended kind (-D/-U/-isystem):
     after ANY earlier increments, the increment b1 ++ y :: b2 (y not in b2) and ANY later
     increments that do not add y again, y survives exactly once and behind it stand only
     appended arguments added after it (from b2 or a later increment): every setting added
     earlier is in front of y, so y overrides it *)
  Theorem later_added_takes_effect_append l before b1 y b2 later :
    sp y = false -> is_ov y = true -> ~ In y b2 -> (forall b, In b later -> ~ In y b) ->
    exists X S, eiadds l (before ++ (b1 ++ y :: b2) :: later) = X ++ y :: S
      /\ ~ In y X /\ ~ In y S
      /\ (forall x, In x S -> sp x = false /\ (In x b2 \/ exists b, In b later /\ In x b)).
  Proof.
    intros Py Oy N2 NL. unfold eager_iadds. rewrite fold_left_app. cbn [fold_left].
    set (l1 := fold_left eiadd before l).
    assert (Uy : is_unique cd y = false).
    { unfold Model.is_unique. unfold Model.is_ov in Oy. destruct (cd y); simpl in *; congruence. }
    destruct (append_position cd sp l1 b1 y b2 Py Uy N2) as [X [S [E [HS [NS NX]]]]].
    rewrite E. fold (eiadds (X ++ y :: S) later).
    destruct (iadds_keeps_position later X y S NL) as [X' [S' [E' [HX' HS']]]].
    exists X', S'. split; [exact E'|]. split; [|split].
    - intros C. destruct (HX' y C) as [C1|[_ [b [Hb C1]]]]; [exact (NX Oy C1) | exact (NL b Hb C1)].
    - intros C. destruct (HS' y C) as [C1|[_ [b [Hb C1]]]]; [exact (NS C1) | exact (NL b Hb C1)].
    - intros x Hx. destruct (HS' x Hx) as [Hx1|[P Hb]]; [destruct (HS x Hx1); split; [assumption | left; assumption] | split; [exact P | right; exact Hb]].
  Qed.

  (* ... and the prepended kind (-I/-L): in front of y stand only prepended arguments listed
     before it in its own batch or added by a later increment: y is searched before
     everything added earlier *)
  Theorem later_added_takes_effect_prepend l before b1 y b2 later :
    sp y = true -> is_ov y = true -> ~ In y b1 -> (forall b, In b later -> ~ In y b) ->
    exists X S, eiadds l (before ++ (b1 ++ y :: b2) :: later) = X ++ y :: S
      /\ ~ In y X /\ ~ In y S
      /\ (forall x, In x X -> sp x = true /\ (In x b1 \/ exists b, In b later /\ In x b)).
  Proof.
    intros Py Oy N1 NL. unfold eager_iadds. rewrite fold_left_app. cbn [fold_left].
    set (l1 := fold_left eiadd before l).
    assert (Uy : is_unique cd y = false).
    { unfold Model.is_unique. unfold Model.is_ov in Oy. destruct (cd y); simpl in *; congruence. }
    destruct (prepend_position cd sp l1 b1 y b2 Py Uy N1) as [X [S [E [HX [NX NS]]]]].
    rewrite E. fold (eiadds (X ++ y :: S) later).
    destruct (iadds_keeps_position later X y S NL) as [X' [S' [E' [HX' HS']]]].
    exists X', S'. split; [exact E'|]. split; [|split].
    - intros C. destruct (HX' y C) as [C1|[_ [b [Hb C1]]]]; [exact (NX C1) | exact (NL b Hb C1)].
    - intros C. destruct (HS' y C) as [C1|[_ [b [Hb C1]]]]; [exact (NS Oy C1) | exact (NL b Hb C1)].
    - intros x Hx. destruct (HX' x Hx) as [Hx1|[P Hb]]; [destruct (HX x Hx1); split; [assumption | left; assumption] | split; [exact P | right; exact Hb]].
  Qed.
End Seq.

(* ------------------------------------------------------------------ the backend's increment order *)
From MV Require Import Arglist.Backend.

Lemma R_fold_iadd K bs : forall s l, R K s l ->
  R K (fold_left (iadd (c_cd K) (c_sp K)) bs s) (eager_iadds (c_cd K) (c_sp K) l bs).
Proof.
  induction bs as [|b bs IH]; intros s l H; [exact H|]. unfold eager_iadds. cbn [fold_left].
  apply IH. apply R_iadd. exact H.
Qed.
Lemma lazy_iadds_list_eager cd sp l bs : lazy_iadds_list cd sp l bs = eager_iadds cd sp l bs.
Proof.
  unfold lazy_iadds_list. set (K := mkcfg cd sp [] false false []).
  pose proof (R_fold_iadd K bs (init l) l (R_init K l)) as H.
  change (c_cd K) with cd in H. change (c_sp K) with sp in H.
  pose proof (R_flush K _ _ H) as F. change (c_cd K) with cd in F. rewrite F. reflexivity.
Qed.

(* the eager meaning of the command line the backend assembles for one (target, compiler) *)
Definition compile_args (cd : str -> dedup) (sp : str -> bool) (T : tsrc) : list str :=
  eager_iadd cd sp (eager_iadds cd sp [] (t_single_base T)) (eager_iadds cd sp [] (target_increments T)).

Theorem compile_args_lazy_eager cd sp T : compile_args_lazy cd sp T = compile_args cd sp T.
Proof. unfold compile_args_lazy, compile_args. rewrite !lazy_iadds_list_eager. reflexivity. Qed.

(* per-target <lang>_args "are supposed to override everything else" (ninjabackend.py:3197):
   an override-type appended argument y (-D/-U...) of the target's c_args survives exactly once
   on the final line and behind it stand only appended arguments that the target's c_args list
   after it - whatever the option, project, global, environment, dependency and include
   sources contain *)
Theorem target_args_take_effect cd sp T b1 y b2 :
  sp y = false -> is_ov cd y = true -> t_targs T = b1 ++ y :: b2 -> ~ In y b2 ->
  ~ In y (t_srcinc T) -> ~ In y (t_bldinc T) -> ~ In y (t_privinc T) ->
  exists X S, compile_args cd sp T = X ++ y :: S /\ ~ In y X /\ ~ In y S
              /\ (forall x, In x S -> sp x = false /\
                    (In x b2 \/ In x (t_srcinc T) \/ In x (t_bldinc T) \/ In x (t_privinc T))).
Proof.
  intros Py Oy ET N2 Ns Nb Np. unfold compile_args.
  assert (Uy : is_unique cd y = false).
  { unfold Model.is_unique. unfold Model.is_ov in Oy. destruct (cd y); simpl in *; congruence. }
  unfold target_increments. rewrite ET.
  replace (basic_increments T ++ [t_show_dep T; t_custom T] ++ flat_map incobj_increments (rev (t_incs T))
           ++ [b1 ++ y :: b2; t_srcinc T; t_bldinc T; t_privinc T])
    with ((basic_increments T ++ [t_show_dep T; t_custom T] ++ flat_map incobj_increments (rev (t_incs T)))
          ++ (b1 ++ y :: b2) :: [t_srcinc T; t_bldinc T; t_privinc T])
    by (rewrite <- !app_assoc; reflexivity).
  destruct (later_added_takes_effect_append cd sp []
              (basic_increments T ++ [t_show_dep T; t_custom T] ++ flat_map incobj_increments (rev (t_incs T)))
              b1 y b2 [t_srcinc T; t_bldinc T; t_privinc T] Py Oy N2)
    as [X [S [E [NX [NS HS]]]]].
  { intros b [<-|[<-|[<-|[]]]]; assumption. }
  rewrite E.
  destruct (append_position cd sp (eager_iadds cd sp [] (t_single_base T)) X y S Py Uy NS) as [X2 [S2 [E2 [HS2 [NS2 NX2]]]]].
  rewrite E2. exists X2, S2. split; [reflexivity|]. split; [exact (NX2 Oy)|]. split; [exact NS2|].
  intros x Hx. destruct (HS2 x Hx) as [Hx1 Px]. split; [exact Px|].
  destruct (HS x Hx1) as [_ [H|[b [[<-|[<-|[<-|[]]]] H]]]]; auto.
Qed.

(* a -I/-L of the per-target <lang>_args is searched before every directory added earlier -
   in particular before the custom target output dirs (t_custom, added "before
   target-specific include directories", ninjabackend.py:3145-3148), the dependencies' and the
   target's include_directories: in front of it stand only prepended arguments that the
   target's c_args list before it or the implicit source/build/private dirs *)
Theorem target_include_args_take_effect cd sp T b1 y b2 :
  sp y = true -> is_ov cd y = true -> t_targs T = b1 ++ y :: b2 -> ~ In y b1 ->
  ~ In y (t_srcinc T) -> ~ In y (t_bldinc T) -> ~ In y (t_privinc T) ->
  exists X S, compile_args cd sp T = X ++ y :: S /\ ~ In y X /\ ~ In y S
              /\ (forall x, In x X -> sp x = true /\
                    (In x b1 \/ In x (t_srcinc T) \/ In x (t_bldinc T) \/ In x (t_privinc T))).
Proof.
  intros Py Oy ET N1 Ns Nb Np. unfold compile_args.
  assert (Uy : is_unique cd y = false).
  { unfold Model.is_unique. unfold Model.is_ov in Oy. destruct (cd y); simpl in *; congruence. }
  unfold target_increments. rewrite ET.
  replace (basic_increments T ++ [t_show_dep T; t_custom T] ++ flat_map incobj_increments (rev (t_incs T))
           ++ [b1 ++ y :: b2; t_srcinc T; t_bldinc T; t_privinc T])
    with ((basic_increments T ++ [t_show_dep T; t_custom T] ++ flat_map incobj_increments (rev (t_incs T)))
          ++ (b1 ++ y :: b2) :: [t_srcinc T; t_bldinc T; t_privinc T])
    by (rewrite <- !app_assoc; reflexivity).
  destruct (later_added_takes_effect_prepend cd sp []
              (basic_increments T ++ [t_show_dep T; t_custom T] ++ flat_map incobj_increments (rev (t_incs T)))
              b1 y b2 [t_srcinc T; t_bldinc T; t_privinc T] Py Oy N1)
    as [X [S [E [NX [NS HX]]]]].
  { intros b [<-|[<-|[<-|[]]]]; assumption. }
  rewrite E.
  destruct (prepend_position cd sp (eager_iadds cd sp [] (t_single_base T)) X y S Py Uy NX) as [X2 [S2 [E2 [HX2 [NX2 NS2]]]]].
  rewrite E2. exists X2, S2. split; [reflexivity|]. split; [exact NX2|]. split; [exact (NS2 Oy)|].
  intros x Hx. destruct (HX2 x Hx) as [Hx1 Px]. split; [exact Px|].
  destruct (HX x Hx1) as [_ [H|[b [[<-|[<-|[<-|[]]]] H]]]]; auto.
Qed.

(* the same for a directory of the target's include_directories / an internal dependency's:
   whatever increment of the include loop adds y (first occurrence in it, no later increment
   repeats it), in front of y stand only prepended arguments added by that increment before
   it or by later increments - never a custom target dir, which is added earlier *)
Theorem custom_dirs_behind_later_includes cd sp T before b1 y b2 later :
  target_increments T = (basic_increments T ++ [t_show_dep T; t_custom T]) ++ before ++ (b1 ++ y :: b2) :: later ->
  sp y = true -> is_ov cd y = true -> ~ In y b1 -> (forall b, In b later -> ~ In y b) ->
  exists X S, eager_iadds cd sp [] (target_increments T) = X ++ y :: S /\ ~ In y X /\ ~ In y S
              /\ (forall x, In x X -> sp x = true /\ (In x b1 \/ exists b, In b later /\ In x b)).
Proof.
  intros E Py Oy N1 NL. rewrite E, app_assoc.
  apply later_added_takes_effect_prepend; assumption.
Qed.
