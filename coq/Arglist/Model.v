(* Arglist/Model.v — executable model of mesonbuild/arglist.py (CompilerArgs, whole
   file) and mesonbuild/compilers/mixins/clike.py:47-123 (CLikeCompilerArgs tables,
   GROUP_FLAGS, to_native).  Same branches, same order.  The classification tables
   are data (Arglist/Tables.v); everything here is parametric in them.
   No proofs in this file.

   Behaviour modelled is that of the code WITH the fixes proposed by this property
   (pending/C13-*.diff; three are in /repo, C13-isystem-double-pop is pending): a bare prepend prefix ("-I", "-L" as a word of its own) is
   not prepended, __len__ and __eq__ flush before answering.  The pre-fix variants
   are kept (should_prepend_prefix_only, len_unflushed, eq_other_unflushed) for
   the `_refuted` witnesses in Arglist/Proofs.v. *)
From MV Require Export Base.Strs.
Open Scope N_scope.

(* arglist.py:23-41 *)
Inductive dedup := NO_DEDUP | UNIQUE | OVERRIDDEN.

Definition dedup_eqb (a b : dedup) : bool :=
  match a, b with
  | NO_DEDUP, NO_DEDUP | UNIQUE, UNIQUE | OVERRIDDEN, OVERRIDDEN => true
  | _, _ => false
  end.

(* ------------------------------------------------------------------ tables *)
(* arglist.py:73-92 class attributes; clike.py:62-69 *)
Record tables := mktables {
  prepend_prefixes : list str;
  dedup2_prefixes : list str;
  dedup2_suffixes : list str;
  dedup2_args : list str;
  dedup1_prefixes : list str;
  dedup1_suffixes : list str;
  dedup1_args : list str;
  always_dedup_args : list str }.

(* str.startswith(tuple) / str.endswith(tuple) *)
Definition starts_any (ps : list str) (a : str) : bool := existsb (fun p => prefixb p a) ps.
Definition ends_any (ss : list str) (a : str) : bool := existsb (fun p => suffixb p a) ss.

(* The tail  (\.[0-9]+)?(\.[0-9]+)?(\.[0-9]+)?$  preceded by  \.so : work on the
   reversed string.  A group is a maximal digit run with its dot, so stripping is
   deterministic; the regex may use 0..3 of them. *)
Fixpoint drop_digits (r : str) : str :=
  match r with
  | c :: t => if is_digit c then drop_digits t else r
  | [] => []
  end.
Definition strip_group_rev (r : str) : option str :=
  match r with
  | c :: _ => if is_digit c then
                match drop_digits r with
                | 46 :: t => Some t
                | _ => None
                end
              else None
  | [] => None
  end.
(* reversed remainders t such that the string is  rev t ++ ".so" ++ (<= k groups) *)
Fixpoint so_stems_rev (k : nat) (r : str) : list str :=
  (match r with
   | 111 :: 115 :: 46 :: t => [t]
   | _ => []
   end) ++
  match k with
  | O => []
  | S k' => match strip_group_rev r with
            | Some t => so_stems_rev k' t
            | None => []
            end
  end.

(* ([\/\\]|\A)lib  somewhere in p *)
Fixpoint lib_at_boundary (p : str) (boundary : bool) : bool :=
  match p with
  | [] => false
  | c :: t => (boundary && prefixb [108; 105; 98] p) || lib_at_boundary t ((c =? 47) || (c =? 92))
  end.

(* arglist.py:86  dedup1_regex = ([\/\\]|\A)lib.*\.so(\.[0-9]+)?(\.[0-9]+)?(\.[0-9]+)?$
   with re.search (arguments without newline) *)
Definition dedup1_regex (a : str) : bool :=
  existsb (fun t => lib_at_boundary (rev t) true) (so_stems_rev 3 (rev a)).

(* arglist.py:201-232 _can_dedup *)
Definition can_dedup (T : tables) (a : str) : dedup :=
  if str_mem a (dedup1_prefixes T) || str_mem a (dedup2_prefixes T) then NO_DEDUP
  else if str_mem a (dedup2_args T) || starts_any (dedup2_prefixes T) a || ends_any (dedup2_suffixes T) a
  then OVERRIDDEN
  else if str_mem a (dedup1_args T) || starts_any (dedup1_prefixes T) a || ends_any (dedup1_suffixes T) a
          || dedup1_regex a
  then UNIQUE
  else NO_DEDUP.

(* arglist.py:234-237 _should_prepend, as shipped in b8a063f *)
Definition should_prepend_prefix_only (T : tables) (a : str) : bool := starts_any (prepend_prefixes T) a.
(* ... and with pending/C13-bare-prefix-split.diff: a bare prefix stays with its operand *)
Definition should_prepend (T : tables) (a : str) : bool :=
  if str_mem a (prepend_prefixes T) then false else starts_any (prepend_prefixes T) a.

(* ------------------------------------------------------------------ Python list primitives *)
Definition str_list_eqb (a b : list str) : bool :=
  (fix go (a b : list str) : bool :=
     match a, b with
     | [], [] => true
     | x :: a', y :: b' => str_eqb x y && go a' b'
     | _, _ => false
     end) a b.

(* index normalisation of list.__getitem__/__setitem__/__delitem__ (int index) *)
Definition py_index (n : nat) (i : Z) : option nat :=
  let zn := Z.of_nat n in
  if (0 <=? i)%Z then (if (i <? zn)%Z then Some (Z.to_nat i) else None)
  else (if (0 <=? i + zn)%Z then Some (Z.to_nat (i + zn)) else None).

Fixpoint set_nth (l : list str) (k : nat) (v : str) : list str :=
  match l, k with
  | [], _ => []
  | _ :: t, O => v :: t
  | x :: t, S k' => x :: set_nth t k' v
  end.
Fixpoint del_nth (l : list str) (k : nat) : list str :=
  match l, k with
  | [], _ => []
  | _ :: t, O => t
  | x :: t, S k' => x :: del_nth t k'
  end.
Fixpoint ins_nth (l : list str) (k : nat) (v : str) : list str :=
  match k, l with
  | O, _ => v :: l
  | S k', x :: t => x :: ins_nth t k' v
  | S _, [] => [v]
  end.
(* list.insert clamps the index *)
Definition py_insert (l : list str) (i : Z) (v : str) : list str :=
  let zn := Z.of_nat (length l) in
  let j := if (0 <=? i)%Z then i else (if (0 <=? i + zn)%Z then (i + zn)%Z else 0%Z) in
  ins_nth l (Z.to_nat j) v.
Fixpoint remove_first (l : list str) (v : str) : option (list str) :=
  match l with
  | [] => None
  | x :: t => if str_eqb x v then Some t
              else match remove_first t v with
                   | Some t' => Some (x :: t')
                   | None => None
                   end
  end.

(* ------------------------------------------------------------------ the lazy class *)
(* arglist.py:94-110 : _container, pre (deque), post, needs_override_check *)
Record st := mkst { cont : list str; pre : list str; post : list str; chk : bool }.

(* arglist.py:94-110 __init__ from a plain iterable *)
Definition init (l : list str) : st := mkst l [] [] false.

(* os.path.isabs on POSIX *)
Definition isabs (a : str) : bool := match a with 47 :: _ => true | _ => false end.

Section Lazy.
  Variable cd : str -> dedup.      (* cls._can_dedup *)
  Variable sp : str -> bool.       (* cls._should_prepend *)

  Definition is_ov (a : str) : bool := dedup_eqb (cd a) OVERRIDDEN.
  Definition is_unique (a : str) : bool := dedup_eqb (cd a) UNIQUE.

  (* arglist.py:296-311 : one round of the loop in __iadd__.
     acc = (tmp_pre with appendleft = cons, self.post, self.needs_override_check) *)
  Definition iadd_step (c pr : list str) (acc : list str * list str * bool) (a : str)
    : list str * list str * bool :=
    let '(tmp, po, ck) := acc in
    match cd a with
    | UNIQUE =>
        if str_mem a c || str_mem a pr || str_mem a po then acc          (* :303-304 continue *)
        else if sp a then (a :: tmp, po, ck) else (tmp, po ++ [a], ck)
    | OVERRIDDEN =>                                                        (* :305-306 *)
        if sp a then (a :: tmp, po, true) else (tmp, po ++ [a], true)
    | NO_DEDUP =>
        if sp a then (a :: tmp, po, ck) else (tmp, po ++ [a], ck)
    end.

  (* arglist.py:290-315 __iadd__ ; :312 self.pre.extendleft(tmp_pre) pushes the
     elements of tmp_pre one by one on the left *)
  Definition iadd (s : st) (args : list str) : st :=
    let '(tmp, po, ck) := fold_left (iadd_step (cont s) (pre s)) args ([], post s, chk s) in
    mkst (cont s) (fold_left (fun p x => x :: p) tmp (pre s)) po ck.

  (* arglist.py:131-146 : walk a queue from its front, keep an element unless it is
     in the set, add OVERRIDDEN elements to the set.  Returns (kept, set). *)
  Fixpoint walk (l seen : list str) : list str * list str :=
    match l with
    | [] => ([], seen)
    | a :: r =>
        if str_mem a seen then walk r seen
        else let '(n, s) := walk r (if is_ov a then a :: seen else seen) in (a :: n, s)
    end.

  (* arglist.py:116-155 flush_pre_post *)
  Definition flush (s : st) : st :=
    if negb (chk s) then                                   (* :117-124 fast path *)
      mkst (pre s ++ cont s ++ post s) [] [] false
    else
      let '(npre, pset) := walk (pre s) [] in              (* :132-137 *)
      let '(rpost, qset) := walk (rev (post s)) [] in      (* :138-143, appendleft *)
      mkst (npre
            ++ filter (fun a => negb (str_mem a qset) && negb (str_mem a pset)) (cont s)  (* :147-149 *)
            ++ rev rpost)                                  (* :150 *)
           [] [] false.

  (* arglist.py:252-262 append_direct *)
  Definition append_direct (s : st) (a : str) : st :=
    let f := flush s in
    if isabs a then iadd f [a]
    else mkst (cont f ++ [a]) (pre f) (post f) (chk f).

  (* arglist.py:264-272 extend_direct *)
  Definition extend_direct (s : st) (l : list str) : st :=
    fold_left append_direct l (flush s).

  (* arglist.py:274-283 extend_preserving_lflags *)
  Definition is_lflag (always : list str) (a : str) : bool :=
    negb (str_mem a always) && (prefixb [45; 108] a || prefixb [45; 76] a).
  Definition extend_preserving_lflags (always : list str) (s : st) (l : list str) : st :=
    let lflags := filter (is_lflag always) l in
    let normal := filter (fun a => negb (is_lflag always a)) l in
    extend_direct (iadd s normal) lflags.

End Lazy.

(* ------------------------------------------------------------------ to_native *)
(* clike.py:47-49 GROUP_FLAGS (re.X, search):
     ^(?!-Wl,).*\.so(?:\.[0-9]+)?(?:\.[0-9]+)?(?:\.[0-9]+)?$ | ^(?:-Wl,)?-l | \.a$ *)
Definition group_flag (a : str) : bool :=
  (negb (prefixb [45; 87; 108; 44] a) && negb (match so_stems_rev 3 (rev a) with [] => true | _ => false end))
  || prefixb [45; 108] a || prefixb [45; 87; 108; 44; 45; 108] a
  || suffixb [46; 97] a.

(* clike.py:88-95 : the enumerate loop *)
Fixpoint group_scan (l : list str) (i : Z) (gs ge : Z) : Z * Z :=
  match l with
  | [] => (gs, ge)
  | a :: r =>
      if group_flag a then group_scan r (i + 1) (if (gs <? 0)%Z then i else gs) i
      else group_scan r (i + 1) gs ge
  end.
Definition start_group : str := s2l "-Wl,--start-group".
Definition end_group : str := s2l "-Wl,--end-group".
(* clike.py:96-100 *)
Definition add_groups (l : list str) : list str :=
  let '(gs, ge) := group_scan l 0 (-1) (-1) in
  if (gs <? ge)%Z && (0 <=? gs)%Z then
    py_insert (py_insert l (ge + 1) end_group) gs start_group
  else l.

(* os.path.realpath for paths none of whose components exists or is a symlink,
   process cwd = "/" *)
Fixpoint split_on (sep : char) (s : str) (cur_rev : str) : list str :=
  match s with
  | [] => [rev cur_rev]
  | c :: t => if c =? sep then rev cur_rev :: split_on sep t [] else split_on sep t (c :: cur_rev)
  end.
Fixpoint norm_comps (comps : list str) (stack_rev : list str) : list str :=
  match comps with
  | [] => rev stack_rev
  | c :: r =>
      if str_eqb c [] || str_eqb c [46] then norm_comps r stack_rev
      else if str_eqb c [46; 46] then norm_comps r (tl stack_rev)
      else norm_comps r (c :: stack_rev)
  end.
Definition realpath (p : str) : str := 47 :: join [47] (norm_comps (split_on 47 p []) []).

Definition isystem : str := s2l "-isystem".
Definition isystem_eq : str := s2l "-isystem=".

(* clike.py:106-118 : indices to remove *)
Fixpoint bad_idx (real_dd : list str) (l : list str) (i : nat) : list nat :=
  match l with
  | [] => []
  | each :: r =>
      (if negb (prefixb isystem each) then []
       else if str_eqb each isystem then
              match r with            (* i < len(new) - 1 *)
              | nxt :: _ => if str_mem (realpath nxt) real_dd then [i; S i] else []
              | [] => []
              end
       else if prefixb isystem_eq each then
              (if str_mem (realpath (drop 9 each)) real_dd then [i] else [])
       else (if str_mem (realpath (drop 8 each)) real_dd then [i] else []))
      ++ bad_idx real_dd r (S i)
  end.
(* sorted(set(bad_idx_list), reverse=True) (pending/C13-isystem-double-pop.diff; the code as
   shipped iterates reversed(bad_idx_list), in which the operand of a bare -isystem can
   occur twice) *)
Fixpoint ins_desc (x : nat) (l : list nat) : list nat :=
  match l with
  | [] => [x]
  | y :: t => if (y <? x)%nat then x :: l
              else if (y =? x)%nat then l
              else y :: ins_desc x t
  end.
Definition sorted_set_desc (l : list nat) : list nat := fold_right ins_desc [] l.
(* clike.py:119-120 : for i in ...: new.pop(i)
   (MutableSequence.pop = self[i] then del self[i]; IndexError escapes) *)
Fixpoint pop_all (l : list str) (idx_desc : list nat) : list str * bool :=
  match idx_desc with
  | [] => (l, true)
  | i :: r => if (i <? length l)%nat then pop_all (del_nth l i) r else (l, false)
  end.
(* clike.py:102-120 *)
Definition strip_default (ddirs : list str) (l : list str) : list str * bool :=
  match ddirs with
  | [] => (l, true)
  | _ => pop_all l (sorted_set_desc (bad_idx (map realpath ddirs) l 0))
  end.
(* ... and as shipped in b8a063f *)
Definition strip_default_shipped (ddirs : list str) (l : list str) : list str * bool :=
  match ddirs with
  | [] => (l, true)
  | _ => pop_all l (rev (bad_idx (map realpath ddirs) l 0))
  end.

(* the list-level effect of CLikeCompilerArgs.to_native on the flushed container *)
Definition tn_list (clike gnu : bool) (ddirs : list str) (l : list str) : list str * bool :=
  if clike then strip_default ddirs (if gnu then add_groups l else l)
  else (l, true).
