(* Arglist/Backend.v — the ORDER in which the Ninja backend feeds argument sources into one
   CompilerArgs per (target, compiler): mesonbuild/build.py:1388-1398
   (_generate_single_compile_base_args), backend/backends.py:1023-1134
   (generate_basic_compiler_args), backend/ninjabackend.py:3134-3222
   (_generate_single_compile, _generate_single_compile_target_args) and :3262-3290
   (generate_single_compile).  Every  commands += xs  of the code is one increment; the
   argument strings themselves (paths, compiler-specific flags) are data.
   No proofs in this file. *)
From MV Require Import Base.Strs Arglist.Model Arglist.Ops Arglist.Eager.
Open Scope N_scope.

(* one directory of an include_directories() object: generate_inc_dir's (sargs, bargs) *)
Record incdir := mkincdir { sargs : list str; bargs : list str }.
(* one IncludeDirs object: incdirs in declaration order, include args of extra_build_dirs *)
Record incobj := mkincobj { dirs : list incdir; extra : list (list str) }.

Record tsrc := mktsrc {
  t_single_base : list (list str);   (* build.py:1393,1397: visibility args, base-option args *)
  t_fixed : list (list str);         (* backends.py:1031-1059: no-stdinc, always, warn, werror, option
                                        compile args, std, optimization, debug - in this order *)
  t_proj : list str;                 (* :1062 add_project_arguments *)
  t_glob : list str;                 (* :1065 add_global_arguments *)
  t_ext : list str;                  (* :1070-1072 <lang>_args option / CFLAGS *)
  t_pic : list str;                  (* :1078-1085 -fPIC / -fPIE *)
  t_deps : list (list str);          (* :1090-1107 external deps IN DECLARATION ORDER: compile (+exe) args *)
  t_show_dep : list str;             (* ninjabackend.py:3144 *)
  t_custom : list str;               (* :3147-3148 custom target dirs *)
  t_incs : list incobj;              (* :3158 target.get_include_dirs() in order *)
  t_targs : list str;                (* :3199 per-target <lang>_args *)
  t_srcinc : list str;               (* :3215-3216 *)
  t_bldinc : list str;               (* :3217-3218 *)
  t_privinc : list str }.            (* :3221 *)

(* backends.py:1023-1134 generate_basic_compiler_args (C-like languages) *)
Definition basic_increments (T : tsrc) : list (list str) :=
  t_fixed T ++ [t_proj T; t_glob T; t_ext T; t_pic T]
  ++ rev (t_deps T).                                   (* :1090 for dep in reversed(...) *)

(* ninjabackend.py:3181-3186 : per object, reversed dirs, sargs then bargs; then extra dirs *)
Definition incobj_increments (o : incobj) : list (list str) :=
  flat_map (fun d => [sargs d; bargs d]) (rev (dirs o)) ++ extra o.

(* ninjabackend.py:3139-3222 _generate_single_compile_target_args *)
Definition target_increments (T : tsrc) : list (list str) :=
  basic_increments T ++ [t_show_dep T; t_custom T]
  ++ flat_map incobj_increments (rev (t_incs T))       (* :3158 reversed(target.get_include_dirs()) *)
  ++ [t_targs T; t_srcinc T; t_bldinc T; t_privinc T].

Section Assemble.
  Variable cd : str -> dedup.
  Variable sp : str -> bool.

  (* x = C(l); x += b1; ...; x += bn; list(x)  through the lazy class *)
  Definition lazy_iadds_list (l : list str) (bs : list (list str)) : list str :=
    cont (flush cd (fold_left (iadd cd sp) bs (init l))).

  (* ninjabackend.py:3274-3288 generate_single_compile: base args (a fresh CompilerArgs from the
     cached list), += the cached target-args list, then compiler_args(commands) *)
  Definition compile_args_lazy (T : tsrc) : list str :=
    lazy_iadds_list (lazy_iadds_list [] (t_single_base T)) [lazy_iadds_list [] (target_increments T)].
End Assemble.
