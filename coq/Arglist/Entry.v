(* Arglist/Entry.v — entry points used by the correspondence check (harness/check_C13.py,
   harness/impl/c13.py mirror the encodings).  Lists are encoded with every element
   PREFIXED by code point 2; fields inside an operation are separated by code point 1. *)
From MV Require Import Base.Strs Arglist.Model Arglist.Tables Arglist.Ops Arglist.Eager Arglist.Backend Arglist.Seq.
Open Scope N_scope.

Definition parse_list (s : str) : list str := tl (split_on 2 s []).
Definition render_list (l : list str) : str := concat (map (fun x => 2 :: x) l).

Definition parse_Z (s : str) : Z :=
  match s with
  | 45 :: r => (- Z.of_N (digits_val r))%Z
  | _ => Z.of_N (digits_val s)
  end.

(* split at the first code point 1 *)
Fixpoint split1 (s : str) (acc_rev : str) : str * str :=
  match s with
  | [] => (rev acc_rev, [])
  | c :: t => if c =? 1 then (rev acc_rev, t) else split1 t (c :: acc_rev)
  end.

Definition parse_op (s : str) : option op :=
  match s with
  | 43 :: r => Some (OIadd (parse_list r))                      (* + *)
  | 101 :: r => Some (OIadd (parse_list r))                     (* e : x.extend(b) *)
  | 97 :: r => Some (OAppend r)                                 (* a *)
  | [105] => Some OIter                                         (* i *)
  | 103 :: r => Some (OGet (parse_Z r))                         (* g *)
  | 115 :: r => let '(i, v) := split1 r [] in Some (OSet (parse_Z i) v)      (* s *)
  | 100 :: r => Some (ODel (parse_Z r))                         (* d *)
  | 110 :: r => let '(i, v) := split1 r [] in Some (OInsert (parse_Z i) v)   (* n *)
  | [99] => Some OCopy                                          (* c *)
  | [67] => Some OReinit                                        (* C *)
  | [108] => Some OLen                                          (* l *)
  | 68 :: r => Some (OAppendDirect r)                           (* D *)
  | 88 :: r => Some (OExtendDirect (parse_list r))              (* X *)
  | 80 :: r => Some (OExtendLflags (parse_list r))              (* P *)
  | 65 :: r => Some (OAdd (parse_list r))                       (* A *)
  | 82 :: r => Some (ORadd (parse_list r))                      (* R *)
  | 113 :: r => Some (OEqList (parse_list r))                   (* q *)
  | 81 :: r => let '(a, b) := split1 r [] in Some (OEqArgs (parse_list a) (parse_list b))  (* Q *)
  | [116] => Some (OToNative false)                             (* t *)
  | [84] => Some (OToNative true)                               (* T *)
  | 109 :: r => Some (OContains r)                              (* m *)
  | 118 :: r => Some (ORemove r)                                (* v *)
  | [122] => Some OReversed                                     (* z *)
  | _ => None
  end.

Fixpoint parse_ops (l : list str) : option (list op) :=
  match l with
  | [] => Some []
  | x :: r => match parse_op x, parse_ops r with
              | Some o, Some os => Some (o :: os)
              | _, _ => None
              end
  end.

Definition render_obs (o : obs) : str :=
  match o with
  | ONone => [45]
  | OList l => 76 :: render_list l
  | ONum n => 78 :: N_dec (N.of_nat n)
  | OBool b => 66 :: bool_str b
  | OErr e => 69 :: e
  end.
Definition render_obss (l : list obs) : str := join [1] (map render_obs l).

Definition tables_of (cls : str) : option tables :=
  if str_eqb cls [67] then Some clike_tables
  else if str_eqb cls [66] then Some base_tables
  else if str_eqb cls [68] then Some d_tables
  else None.

Definition cfg_of (T : tables) (cls flags ddirs : str) : cfg :=
  mkcfg (can_dedup T) (should_prepend T) (always_dedup_args T)
        (str_eqb cls [67]) (str_eqb flags [71]) (parse_list ddirs).

Definition render_dedup (d : dedup) : str :=
  match d with NO_DEDUP => [78] | UNIQUE => [85] | OVERRIDDEN => [79] end.

Definition render_tables (T : tables) : str :=
  join [1] (map render_list [prepend_prefixes T; dedup2_prefixes T; dedup2_suffixes T; dedup2_args T;
                             dedup1_prefixes T; dedup1_suffixes T; dedup1_args T; always_dedup_args T]).

(* a list of lists: the lists separated by code point 1 *)
Definition parse_lists (s : str) : list (list str) := map parse_list (split_on 1 s []).
Fixpoint pair_up (l : list (list str)) : list incdir :=
  match l with
  | s :: b :: r => mkincdir s b :: pair_up r
  | [s] => [mkincdir s []]
  | [] => []
  end.
(* an include object: dirs (sargs,bargs alternating, separated by 1), code point 4, extra increments *)
Fixpoint split4 (s : str) (acc_rev : str) : str * str :=
  match s with
  | [] => (rev acc_rev, [])
  | c :: t => if c =? 4 then (rev acc_rev, t) else split4 t (c :: acc_rev)
  end.
Definition parse_incobj (s : str) : incobj :=
  let '(d, e) := split4 s [] in mkincobj (pair_up (parse_lists d)) (parse_lists e).
Definition parse_tsrc (a : list str) : option tsrc :=
  match a with
  | [sb; fx; pj; gl; ex; pc; dp; sd; cu; ic; ta; si; bi; pi] =>
      Some (mktsrc (parse_lists sb) (parse_lists fx) (parse_list pj) (parse_list gl) (parse_list ex) (parse_list pc)
                   (parse_lists dp) (parse_list sd) (parse_list cu) (map parse_incobj (split_on 3 ic []))
                   (parse_list ta) (parse_list si) (parse_list bi) (parse_list pi))
  | _ => None
  end.

Definition run (fn : str) (args : list str) : str :=
  if str_eqb fn (s2l "seq") then          (* the lazy model *)
    match args with
    | cls :: flags :: ddirs :: ini :: ops =>
        match tables_of cls, parse_ops ops with
        | Some T, Some os => render_obss (run_ops (cfg_of T cls flags ddirs) (init (parse_list ini)) os)
        | _, _ => s2l "?"
        end
    | _ => s2l "?"
    end
  else if str_eqb fn (s2l "eseq") then    (* the eager spec *)
    match args with
    | cls :: flags :: ddirs :: ini :: ops =>
        match tables_of cls, parse_ops ops with
        | Some T, Some os => render_obss (erun (cfg_of T cls flags ddirs) (parse_list ini) os)
        | _, _ => s2l "?"
        end
    | _ => s2l "?"
    end
  else if str_eqb fn (s2l "cls") then     (* _can_dedup, _should_prepend, GROUP_FLAGS *)
    match args with
    | [cls; a] =>
        match tables_of cls with
        | Some T => render_dedup (can_dedup T a) ++ bool_str (should_prepend T a) ++ bool_str (group_flag a)
        | None => s2l "?"
        end
    | _ => s2l "?"
    end
  else if str_eqb fn (s2l "tables") then
    match args with
    | [cls] => match tables_of cls with Some T => render_tables T | None => s2l "?" end
    | _ => s2l "?"
    end
  else if str_eqb fn (s2l "bk") then      (* the backend's assembly through the lazy class *)
    match args with
    | cls :: rest =>
        match tables_of cls, parse_tsrc rest with
        | Some T, Some src => render_list (compile_args_lazy (can_dedup T) (should_prepend T) src)
        | _, _ => s2l "?"
        end
    | _ => s2l "?"
    end
  else if str_eqb fn (s2l "ebk") then     (* ... and its eager meaning *)
    match args with
    | cls :: rest =>
        match tables_of cls, parse_tsrc rest with
        | Some T, Some src => render_list (compile_args (can_dedup T) (should_prepend T) src)
        | _, _ => s2l "?"
        end
    | _ => s2l "?"
    end
  else if str_eqb fn (s2l "realpath") then
    match args with [p] => realpath p | _ => s2l "?" end
  else s2l "?".
