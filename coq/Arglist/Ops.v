(* Arglist/Ops.v — the operations of the class as a state machine over Model.st:
   one constructor per public operation exercised by the correspondence, the
   observation each returns, and the run of an operation sequence.
   No proofs in this file. *)
From MV Require Import Base.Strs Arglist.Model.
Open Scope N_scope.

(* what a concrete CompilerArgs subclass + compiler object fix *)
Record cfg := mkcfg {
  c_cd : str -> dedup;          (* cls._can_dedup *)
  c_sp : str -> bool;           (* cls._should_prepend *)
  c_always : list str;          (* cls.always_dedup_args *)
  c_clike : bool;               (* CLikeCompilerArgs.to_native (true) or CompilerArgs.to_native *)
  c_gnu : bool;                 (* isinstance(compiler.linker, GnuLike...) *)
  c_ddirs : list str }.         (* compiler.get_default_include_dirs() *)

Inductive op :=
| OIadd (b : list str)               (* x += b   /  x.extend(b) *)
| OAppend (a : str)                  (* x.append(a) *)
| OIter                              (* list(x) *)
| OGet (i : Z)                       (* x[i] *)
| OSet (i : Z) (v : str)             (* x[i] = v *)
| ODel (i : Z)                       (* del x[i] *)
| OInsert (i : Z) (v : str)          (* x.insert(i, v) *)
| OCopy                              (* x = x.copy() *)
| OReinit                            (* x = type(x)(x.compiler, x) *)
| OLen                               (* len(x) *)
| OAppendDirect (a : str)
| OExtendDirect (b : list str)
| OExtendLflags (b : list str)       (* x.extend_preserving_lflags(b) *)
| OAdd (b : list str)                (* x = x + b *)
| ORadd (b : list str)               (* x = b + x *)
| OEqList (b : list str)             (* x == b *)
| OEqArgs (b0 b : list str)          (* y = cls(cc, b0); y += b; x == y *)
| OToNative (copy : bool)            (* x.to_native(copy=copy) *)
| OContains (a : str)                (* a in x        (collections.abc.Sequence) *)
| ORemove (a : str)                  (* x.remove(a)   (collections.abc.MutableSequence) *)
| OReversed.                         (* list(reversed(x)) (collections.abc.Sequence) *)

Inductive obs :=
| ONone
| OList (l : list str)
| ONum (n : nat)
| OBool (b : bool)
| OErr (e : str).

Definition IndexError : str := s2l "IndexError".
Definition ValueError : str := s2l "ValueError".

Definition upd (f : st) (l : list str) : st := mkst l (pre f) (post f) (chk f).

Section Step.
  Variable K : cfg.
  Let cd := c_cd K.
  Let sp := c_sp K.

  Definition step (s : st) (o : op) : st * obs :=
    match o with
    | OIadd b => (iadd cd sp s b, ONone)                                  (* arglist.py:290-315, :340 *)
    | OAppend a => (iadd cd sp s [a], ONone)                              (* :337 *)
    | OIter => let f := flush cd s in (f, OList (cont f))                 (* :157-160 *)
    | OGet i =>                                                           (* :170-172 *)
        let f := flush cd s in
        match py_index (length (cont f)) i with
        | Some k => (f, OList [nth k (cont f) []])
        | None => (f, OErr IndexError)
        end
    | OSet i v =>                                                         (* :182-184 *)
        let f := flush cd s in
        match py_index (length (cont f)) i with
        | Some k => (upd f (set_nth (cont f) k v), ONone)
        | None => (f, OErr IndexError)
        end
    | ODel i =>                                                           (* :186-188 *)
        let f := flush cd s in
        match py_index (length (cont f)) i with
        | Some k => (upd f (del_nth (cont f) k), ONone)
        | None => (f, OErr IndexError)
        end
    | OInsert i v =>                                                      (* :193-195 *)
        let f := flush cd s in (upd f (py_insert (cont f) i v), ONone)
    | OCopy => let f := flush cd s in (init (cont f), ONone)              (* :197-199 *)
    | OReinit => let f := flush cd s in (init (cont f), ONone)            (* :94-110 *)
    | OLen => let f := flush cd s in (f, ONum (length (cont f)))          (* :190-191 + pending fix *)
    | OAppendDirect a => (append_direct cd sp s a, ONone)                 (* :252-262 *)
    | OExtendDirect b => (extend_direct cd sp s b, ONone)                 (* :264-272 *)
    | OExtendLflags b => (extend_preserving_lflags cd sp (c_always K) s b, ONone)   (* :274-283 *)
    | OAdd b => (iadd cd sp (init (cont (flush cd s))) b, ONone)          (* :285-289 *)
    | ORadd b => (iadd cd sp (init b) (cont (flush cd s)), ONone)         (* :317-321 *)
    | OEqList b => let f := flush cd s in (f, OBool (str_list_eqb (cont f) b))     (* :323-330 *)
    | OEqArgs b0 b =>                                                     (* :323-328 + pending fix *)
        let f := flush cd s in
        let other := flush cd (iadd cd sp (init b0) b) in
        (f, OBool (str_list_eqb (cont f) (cont other)))
    | OToNative copy =>                                                   (* clike.py:72-123 / arglist.py:239-250 *)
        let f := flush cd s in
        let '(l', ok) := tn_list (c_clike K) (c_gnu K) (c_ddirs K) (cont f) in
        (if copy then f else upd f l', if ok then OList l' else OErr IndexError)
    | OContains a => let f := flush cd s in (f, OBool (str_mem a (cont f)))
    | ORemove a =>
        let f := flush cd s in
        match remove_first (cont f) a with
        | Some l' => (upd f l', ONone)
        | None => (f, OErr ValueError)
        end
    | OReversed => let f := flush cd s in (f, OList (rev (cont f)))
    end.

  (* run a sequence; observations in order, then the final list(x) *)
  Fixpoint run_ops (s : st) (ops : list op) : list obs :=
    match ops with
    | [] => [OList (cont (flush cd s))]
    | o :: r => let '(s', ob) := step s o in ob :: run_ops s' r
    end.

  (* the answers of the code as shipped in b8a063f, for the `_refuted` witnesses:
     arglist.py:190-191 __len__ and :323-328 __eq__ do not flush (the other operand) *)
  Definition len_unflushed (s : st) : nat := length (cont s) + length (pre s) + length (post s).
  Definition eq_other_unflushed (s : st) (b0 b : list str) : bool :=
    str_list_eqb (cont (flush cd s)) (cont (iadd cd sp (init b0) b)).
End Step.
