(* Arglist/Eager.v — the SPEC: the simple eager meaning of the class on a plain
   Python list.  `eager_iadd l b` is the property text: every batch of prepend
   (-I/-L) arguments goes, in its own order, in front of everything added earlier;
   all other arguments follow in the order added; of identical override-type
   arguments only the highest-precedence occurrence survives (front-most of the
   prepended, last of the appended); a repeat of a once-only argument is dropped.
   No proofs in this file. *)
From MV Require Import Base.Strs Arglist.Model Arglist.Ops.
Open Scope N_scope.

Section Eager.
  Variable cd : str -> dedup.
  Variable sp : str -> bool.

  (* the batch without the repeats of once-only (UNIQUE) arguments: `present` is
     what is already on the line plus what this batch has appended so far
     (arglist.py:303 does not consult tmp_pre: a once-only argument that is also a
     prepend argument is not looked up within its own batch - no such argument
     exists for the CLike tables, Proofs.clike_unique_not_prepend) *)
  Fixpoint ufilter (present : list str) (b : list str) : list str :=
    match b with
    | [] => []
    | a :: r =>
        if is_unique cd a && str_mem a present then ufilter present r
        else a :: ufilter (if sp a then present else present ++ [a]) r
    end.

  (* keep an element unless an equal override-type element came before it *)
  Fixpoint keep_first (seen : list str) (l : list str) : list str :=
    match l with
    | [] => []
    | a :: r => if str_mem a seen then keep_first seen r
                else a :: keep_first (if is_ov cd a then a :: seen else seen) r
    end.
  (* ... unless an equal override-type element comes after it *)
  Definition keep_last (l : list str) : list str := rev (keep_first [] (rev l)).

  (* a is an override-type argument that the batch sets again *)
  Definition overridden_by (b : list str) (a : str) : bool := is_ov cd a && str_mem a b.

  Definition eager_iadd (l b : list str) : list str :=
    let b' := ufilter l b in
    keep_first [] (filter sp b')
    ++ filter (fun a => negb (overridden_by b' a)) l
    ++ keep_last (filter (fun a => negb (sp a)) b').

  Definition eager_append_direct (l : list str) (a : str) : list str :=
    if isabs a then eager_iadd l [a] else l ++ [a].
End Eager.

Section EStep.
  Variable K : cfg.
  Let cd := c_cd K.
  Let sp := c_sp K.

  Definition estep (l : list str) (o : op) : list str * obs :=
    match o with
    | OIadd b => (eager_iadd cd sp l b, ONone)
    | OAppend a => (eager_iadd cd sp l [a], ONone)
    | OIter => (l, OList l)
    | OGet i => match py_index (length l) i with
                | Some k => (l, OList [nth k l []])
                | None => (l, OErr IndexError)
                end
    | OSet i v => match py_index (length l) i with
                  | Some k => (set_nth l k v, ONone)
                  | None => (l, OErr IndexError)
                  end
    | ODel i => match py_index (length l) i with
                | Some k => (del_nth l k, ONone)
                | None => (l, OErr IndexError)
                end
    | OInsert i v => (py_insert l i v, ONone)
    | OCopy => (l, ONone)
    | OReinit => (l, ONone)
    | OLen => (l, ONum (length l))
    | OAppendDirect a => (eager_append_direct cd sp l a, ONone)
    | OExtendDirect b => (fold_left (eager_append_direct cd sp) b l, ONone)
    | OExtendLflags b =>
        (fold_left (eager_append_direct cd sp) (filter (is_lflag (c_always K)) b)
                   (eager_iadd cd sp l (filter (fun a => negb (is_lflag (c_always K) a)) b)), ONone)
    | OAdd b => (eager_iadd cd sp l b, ONone)
    | ORadd b => (eager_iadd cd sp b l, ONone)
    | OEqList b => (l, OBool (str_list_eqb l b))
    | OEqArgs b0 b => (l, OBool (str_list_eqb l (eager_iadd cd sp b0 b)))
    | OToNative copy =>
        let '(l', ok) := tn_list (c_clike K) (c_gnu K) (c_ddirs K) l in
        (if copy then l else l', if ok then OList l' else OErr IndexError)
    | OContains a => (l, OBool (str_mem a l))
    | ORemove a => match remove_first l a with
                   | Some l' => (l', ONone)
                   | None => (l, OErr ValueError)
                   end
    | OReversed => (l, OList (rev l))
    end.

  Fixpoint erun (l : list str) (ops : list op) : list obs :=
    match ops with
    | [] => [OList l]
    | o :: r => let '(l', ob) := estep l o in ob :: erun l' r
    end.
End EStep.

(* ------------------------------------------------------------------ to_native: default include dirs *)
(* The meaning of clike.py:102-120 without indices.  For one element and what follows it:
   (the element itself is dropped, the NEXT element is dropped as its operand). *)
Definition isystem_flags (real_dd : list str) (each : str) (rest : list str) : bool * bool :=
  if negb (prefixb isystem each) then (false, false)
  else if str_eqb each isystem then                       (* bare: look at the operand *)
    match rest with
    | nxt :: _ => if str_mem (realpath nxt) real_dd then (true, true) else (false, false)
    | [] => (false, false)
    end
  else if prefixb isystem_eq each then (str_mem (realpath (drop 9 each)) real_dd, false)
  else (str_mem (realpath (drop 8 each)) real_dd, false).

(* an element is dropped iff it is an -isystem of a default directory itself or the operand
   of a dropped bare -isystem; every other element stays, in order *)
Fixpoint strip_spec (real_dd : list str) (l : list str) (operand_of_dropped : bool) : list str :=
  match l with
  | [] => []
  | e :: r =>
      let '(self, nxt) := isystem_flags real_dd e r in
      if operand_of_dropped || self then strip_spec real_dd r nxt
      else e :: strip_spec real_dd r nxt
  end.

