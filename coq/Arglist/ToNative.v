(* Arglist/ToNative.v — C13: exactness of the default-include-dir stripping of
   CLikeCompilerArgs.to_native (clike.py:102-120): the index machinery (bad_idx_list,
   sorted(set(..), reverse=True), pop) removes exactly the elements that the index-free
   meaning Eager.strip_spec drops, never raises, and the code as shipped (plain
   reversed(bad_idx_list)) loses an argument / raises on a witness. *)
From MV Require Import Base.Strs Base.LexFacts Arglist.Model Arglist.Tables Arglist.Ops Arglist.Eager Arglist.Proofs.
From Coq Require Import Lia.
Open Scope N_scope.

Fixpoint nat_mem (k : nat) (l : list nat) : bool :=
  match l with [] => false | x :: t => (k =? x)%nat || nat_mem k t end.
Lemma nat_mem_app k a b : nat_mem k (a ++ b) = nat_mem k a || nat_mem k b.
Proof. induction a as [|x a IH]; simpl; [reflexivity|]. rewrite IH, orb_assoc. reflexivity. Qed.

(* keep the elements whose (running) index is not flagged *)
Fixpoint keep_idx (bad : nat -> bool) (l : list str) (k : nat) : list str :=
  match l with
  | [] => []
  | x :: t => if bad k then keep_idx bad t (S k) else x :: keep_idx bad t (S k)
  end.
Lemma keep_idx_ext f g l : forall o, (forall k, (o <= k)%nat -> f k = g k) -> keep_idx f l o = keep_idx g l o.
Proof.
  induction l as [|x l IH]; intros o H; simpl; [reflexivity|].
  rewrite (H o (le_n o)). rewrite (IH (S o)) by (intros k Hk; apply H; lia). reflexivity.
Qed.
Lemma keep_idx_none f l : forall o, (forall k, (o <= k)%nat -> f k = false) -> keep_idx f l o = l.
Proof.
  induction l as [|x l IH]; intros o H; simpl; [reflexivity|].
  rewrite (H o (le_n o)). f_equal. apply IH. intros k Hk. apply H. lia.
Qed.

(* deleting index i, then dropping flagged indices below i = dropping both at once *)
Lemma keep_idx_del f l : forall i o, (forall k, (o + i <= k)%nat -> f k = false) ->
  keep_idx f (del_nth l i) o = keep_idx (fun k => (k =? o + i)%nat || f k) l o.
Proof.
  induction l as [|x l IH]; intros i o H; [destruct i; reflexivity|].
  destruct i as [|i]; cbn [del_nth keep_idx].
  - rewrite Nat.add_0_r, Nat.eqb_refl. cbn [orb].
    rewrite keep_idx_none by (intros k Hk; apply H; lia).
    symmetry. apply keep_idx_none. intros k Hk.
    rewrite (H k) by lia. rewrite orb_false_r. apply Nat.eqb_neq. lia.
  - assert (E : (o =? o + S i)%nat = false) by (apply Nat.eqb_neq; lia). rewrite E. cbn [orb].
    rewrite (IH i (S o)) by (intros k Hk; apply H; lia).
    assert (X : keep_idx (fun k => (k =? S o + i)%nat || f k) l (S o) =
                keep_idx (fun k => (k =? o + S i)%nat || f k) l (S o)).
    { apply keep_idx_ext. intros k _. replace (S o + i)%nat with (o + S i)%nat by lia. reflexivity. }
    rewrite X. reflexivity.
Qed.

(* a strictly descending index list whose head is below n *)
Fixpoint desc_ok (idx : list nat) (n : nat) : Prop :=
  match idx with [] => True | i :: r => (i < n)%nat /\ desc_ok r i end.
Lemma desc_ok_weaken idx : forall n m, desc_ok idx n -> (n <= m)%nat -> desc_ok idx m.
Proof. destruct idx as [|i r]; simpl; intros n m H L; [exact I|]. destruct H. split; [lia | assumption]. Qed.
Lemma desc_ok_bound idx : forall n k, desc_ok idx n -> nat_mem k idx = true -> (k < n)%nat.
Proof.
  induction idx as [|i r IH]; simpl; intros n k H M; [discriminate|].
  destruct H as [H1 H2]. apply orb_true_iff in M. destruct M as [M|M].
  - apply Nat.eqb_eq in M. lia.
  - specialize (IH i k H2 M). lia.
Qed.

Lemma del_nth_length l : forall i, (i < length l)%nat -> length (del_nth l i) = pred (length l).
Proof.
  induction l as [|x l IH]; intros i H; simpl in *; [lia|].
  destruct i; [reflexivity|]. simpl. rewrite IH by lia. lia.
Qed.

(* popping a strictly descending, in-range index list never raises and removes exactly
   the listed positions *)
Lemma pop_all_desc idx : forall l, desc_ok idx (length l) ->
  pop_all l idx = (keep_idx (fun k => nat_mem k idx) l 0, true).
Proof.
  induction idx as [|i r IH]; intros l H; cbn [pop_all].
  - rewrite keep_idx_none; [reflexivity | reflexivity].
  - destruct H as [H1 H2]. assert (E : (i <? length l)%nat = true) by (apply Nat.ltb_lt; exact H1).
    rewrite E. rewrite IH.
    + f_equal. rewrite (keep_idx_del (fun k => nat_mem k r) l i 0).
      * apply keep_idx_ext. intros k _. reflexivity.
      * intros k Hk. destruct (nat_mem k r) eqn:M; [|reflexivity].
        pose proof (desc_ok_bound r i k H2 M). lia.
    + eapply desc_ok_weaken; [exact H2|]. rewrite del_nth_length by exact H1. lia.
Qed.

(* sorted(set(..), reverse=True) *)
Lemma ins_desc_mem k x l : nat_mem k (ins_desc x l) = (k =? x)%nat || nat_mem k l.
Proof.
  induction l as [|y l IH]; simpl; [reflexivity|].
  destruct (y <? x)%nat; [reflexivity|]. destruct (y =? x)%nat eqn:E.
  - apply Nat.eqb_eq in E. subst. simpl. destruct (k =? x)%nat; reflexivity.
  - simpl. rewrite IH. destruct (k =? x)%nat, (k =? y)%nat; reflexivity.
Qed.
Lemma sorted_set_mem k l : nat_mem k (sorted_set_desc l) = nat_mem k l.
Proof. induction l as [|x l IH]; simpl; [reflexivity|]. rewrite ins_desc_mem, IH. reflexivity. Qed.
Lemma ins_desc_ok x l : forall n, desc_ok l n -> (x < n)%nat -> desc_ok (ins_desc x l) n.
Proof.
  induction l as [|y l IH]; intros n H L; simpl; [split; [exact L | exact I]|].
  destruct H as [H1 H2]. destruct (y <? x)%nat eqn:E1.
  - apply Nat.ltb_lt in E1. simpl. repeat split; [exact L | exact E1 | exact H2].
  - destruct (y =? x)%nat eqn:E2; [simpl; split; assumption|].
    apply Nat.ltb_ge in E1. apply Nat.eqb_neq in E2. simpl. split; [exact H1|].
    apply IH; [exact H2 | lia].
Qed.
Lemma sorted_set_ok l n : (forall k, nat_mem k l = true -> (k < n)%nat) -> desc_ok (sorted_set_desc l) n.
Proof.
  induction l as [|x l IH]; intros H; simpl; [exact I|].
  apply ins_desc_ok.
  - apply IH. intros k Hk. apply H. simpl. rewrite Hk. apply orb_true_r.
  - apply H. simpl. rewrite Nat.eqb_refl. reflexivity.
Qed.

(* the index list of clike.py:106-118, element by element *)
Lemma bad_idx_cons rd e r i :
  bad_idx rd (e :: r) i =
  (let '(self, nxt) := isystem_flags rd e r in
   (if self then [i] else []) ++ (if nxt then [S i] else [])) ++ bad_idx rd r (S i).
Proof.
  cbn [bad_idx]. f_equal. unfold isystem_flags.
  destruct (negb (prefixb isystem e)); [reflexivity|].
  destruct (str_eqb e isystem).
  - destruct r as [|nxt r']; [reflexivity|]. destruct (str_mem (realpath nxt) rd); reflexivity.
  - destruct (prefixb isystem_eq e).
    + destruct (str_mem (realpath (drop 9 e)) rd); reflexivity.
    + destruct (str_mem (realpath (drop 8 e)) rd); reflexivity.
Qed.
Lemma isystem_flags_next rd e r : snd (isystem_flags rd e r) = true -> r <> [].
Proof.
  unfold isystem_flags. destruct (negb (prefixb isystem e)); [discriminate|].
  destruct (str_eqb e isystem).
  - destruct r; [discriminate | intros _; discriminate].
  - destruct (prefixb isystem_eq e); simpl; discriminate.
Qed.
Lemma bad_idx_range rd l : forall i k, nat_mem k (bad_idx rd l i) = true -> (i <= k < i + length l)%nat.
Proof.
  induction l as [|e r IH]; intros i k H; [discriminate|].
  rewrite bad_idx_cons in H. rewrite nat_mem_app in H. apply orb_true_iff in H. destruct H as [H|H].
  - pose proof (isystem_flags_next rd e r) as N.
    destruct (isystem_flags rd e r) as [self nxt]. rewrite nat_mem_app in H. simpl in *.
    apply orb_true_iff in H. destruct H as [H|H].
    + destruct self; [|discriminate]. simpl in H. rewrite orb_false_r in H. apply Nat.eqb_eq in H. lia.
    + destruct nxt; [|discriminate]. simpl in H. rewrite orb_false_r in H. apply Nat.eqb_eq in H.
      specialize (N eq_refl). destruct r; [congruence|]. simpl. lia.
  - apply IH in H. simpl. lia.
Qed.

(* dropping the flagged indices = the index-free meaning *)
Lemma keep_idx_spec rd l : forall o pending,
  keep_idx (fun k => (pending && (k =? o)%nat) || nat_mem k (bad_idx rd l o)) l o = strip_spec rd l pending.
Proof.
  induction l as [|e r IH]; intros o pending; [reflexivity|].
  cbn [keep_idx strip_spec]. rewrite bad_idx_cons.
  destruct (isystem_flags rd e r) as [self nxt]. rewrite Nat.eqb_refl, andb_true_r.
  assert (T : nat_mem o (bad_idx rd r (S o)) = false).
  { destruct (nat_mem o (bad_idx rd r (S o))) eqn:M; [|reflexivity]. apply bad_idx_range in M. lia. }
  assert (HD : nat_mem o (((if self then [o] else []) ++ (if nxt then [S o] else [])) ++ bad_idx rd r (S o)) = self).
  { rewrite !nat_mem_app, T, orb_false_r. destruct self, nxt; simpl; rewrite ?Nat.eqb_refl; try reflexivity.
    all: assert (E : (o =? S o)%nat = false) by (apply Nat.eqb_neq; lia); rewrite E; reflexivity. }
  rewrite HD.
  assert (TL : keep_idx (fun k => (pending && (k =? o)%nat)
                                  || nat_mem k (((if self then [o] else []) ++ (if nxt then [S o] else [])) ++ bad_idx rd r (S o)))
                        r (S o) = strip_spec rd r nxt).
  { rewrite <- (IH (S o) nxt). apply keep_idx_ext. intros k Hk.
    assert (E : (k =? o)%nat = false) by (apply Nat.eqb_neq; lia).
    rewrite E, andb_false_r. cbn [orb]. rewrite !nat_mem_app.
    destruct self, nxt; simpl; rewrite ?E; simpl; try rewrite orb_false_r; reflexivity. }
  rewrite TL. reflexivity.
Qed.

(* C13 / to_native: with default include dirs dd, the stripping never raises and its result
   is exactly the index-free meaning: an element is dropped iff it is -isystem<dir> /
   -isystem=<dir> of a default directory, a bare -isystem whose operand is a default
   directory, or that operand; everything else stays, in order *)
Theorem strip_default_exact dd l :
  strip_default dd l = (match dd with [] => l | _ => strip_spec (map realpath dd) l false end, true).
Proof.
  unfold strip_default. destruct dd as [|d dd']; [reflexivity|].
  set (rd := map realpath (d :: dd')).
  rewrite pop_all_desc.
  - f_equal. rewrite <- (keep_idx_spec rd l 0 false). apply keep_idx_ext. intros k _.
    rewrite sorted_set_mem. reflexivity.
  - apply sorted_set_ok. intros k Hk. apply bad_idx_range in Hk. lia.
Qed.

(* the whole list-level to_native never raises (the IndexError branch of the model is dead) *)
Theorem tn_list_total clike gnu dd l : snd (tn_list clike gnu dd l) = true.
Proof. unfold tn_list. destruct clike; [rewrite strip_default_exact|]; reflexivity. Qed.

Lemma prefixb_app_l a b c : prefixb (a ++ b) (a ++ c) = prefixb b c.
Proof. induction a as [|x a IH]; simpl; [reflexivity|]. rewrite N.eqb_refl. exact IH. Qed.
(* nothing that is not an -isystem word (or its operand) is ever touched *)
Theorem strip_spec_no_isystem rd l :
  (forall e, In e l -> prefixb isystem e = false) -> strip_spec rd l false = l.
Proof.
  induction l as [|e r IH]; intros H; [reflexivity|]. cbn [strip_spec]. unfold isystem_flags.
  rewrite (H e (or_introl eq_refl)). cbn [negb orb]. f_equal. apply IH. intros x Hx. apply H. right. exact Hx.
Qed.
(* the three spellings are dropped when (and only when) the directory is a default one *)
Theorem strip_spec_joined rd x p r :
  x <> 61 -> strip_spec rd ((isystem ++ x :: p) :: r) false =
             if str_mem (realpath (x :: p)) rd then strip_spec rd r false
             else (isystem ++ x :: p) :: strip_spec rd r false.
Proof.
  intros Hx. cbn [strip_spec]. unfold isystem_flags.
  assert (P : prefixb isystem (isystem ++ x :: p) = true) by apply prefixb_app. rewrite P. cbn [negb].
  assert (E : str_eqb (isystem ++ x :: p) isystem = false) by (vm_compute; reflexivity). rewrite E.
  assert (Q : prefixb isystem_eq (isystem ++ x :: p) = false).
  { replace isystem_eq with (isystem ++ [61]) by reflexivity. rewrite prefixb_app_l. cbn [prefixb].
    assert (N : (61 =? x) = false) by (apply N.eqb_neq; congruence). rewrite N. reflexivity. }
  rewrite Q. replace (drop 8 (isystem ++ x :: p)) with (x :: p) by reflexivity.
  destruct (str_mem (realpath (x :: p)) rd); reflexivity.
Qed.
Theorem strip_spec_bare rd d r :
  prefixb isystem d = false ->
  strip_spec rd (isystem :: d :: r) false =
  if str_mem (realpath d) rd then strip_spec rd r false else isystem :: d :: strip_spec rd r false.
Proof.
  intros Hd. cbn [strip_spec]. unfold isystem_flags at 1.
  replace (prefixb isystem isystem) with true by (vm_compute; reflexivity).
  replace (str_eqb isystem isystem) with true by (vm_compute; reflexivity). cbn [negb].
  unfold isystem_flags. rewrite Hd. cbn [negb orb].
  destruct (str_mem (realpath d) rd); reflexivity.
Qed.

(* ---- the code as shipped in b8a063f (reversed(bad_idx_list) without set()) *)
Theorem strip_shipped_refuted :
  (exists dd l, fst (strip_default_shipped dd l) <> strip_spec (map realpath dd) l false) /\
  (exists dd l, snd (strip_default_shipped dd l) = false).
Proof.
  split.
  - exists [s2l "/"], [s2l "-isystem"; s2l "-isystem=/.."; s2l "x"; s2l "y"]. vm_compute. discriminate.
  - exists [s2l "/"], [s2l "x"; s2l "-isystem"; s2l "-isystem=/.."]. vm_compute. reflexivity.
Qed.
Fixpoint nat_list_eqb (a b : list nat) : bool :=
  match a, b with
  | [], [] => true
  | x :: a', y :: b' => (x =? y)%nat && nat_list_eqb a' b'
  | _, _ => false
  end.
Lemma nat_list_eqb_eq a : forall b, nat_list_eqb a b = true -> a = b.
Proof.
  induction a as [|x a IH]; intros [|y b] H; simpl in H; try discriminate; [reflexivity|].
  apply andb_true_iff in H. destruct H as [H1 H2]. apply Nat.eqb_eq in H1. f_equal; [exact H1 | apply IH; exact H2].
Qed.
(* the shipped loop is right whenever no index is listed twice (the list is already strictly
   increasing), i.e. when no dropped bare -isystem has an operand that is dropped on its own too *)
Theorem strip_shipped_partial dd l :
  nat_list_eqb (rev (bad_idx (map realpath dd) l 0)) (sorted_set_desc (bad_idx (map realpath dd) l 0)) = true ->
  strip_default_shipped dd l = strip_default dd l.
Proof.
  intros H. apply nat_list_eqb_eq in H. unfold strip_default_shipped, strip_default.
  destruct dd; [reflexivity|]. rewrite H. reflexivity.
Qed.
Example strip_shipped_guard_satisfiable :
  let dd := [s2l "/mvx/inc"; s2l "/mvx/sys"] in
  let l := [s2l "-Lfoodir"; s2l "-isystem/mvx/inc"; s2l "-isystem=/mvx/sys"; s2l "-DX"; s2l "-isystem"; s2l "/mvx/inc"] in
  nat_list_eqb (rev (bad_idx (map realpath dd) l 0)) (sorted_set_desc (bad_idx (map realpath dd) l 0)) = true
  /\ strip_default dd l = ([s2l "-Lfoodir"; s2l "-DX"], true).
Proof. vm_compute. split; reflexivity. Qed.
