(* Extraction of the C13 model.  Only the ExtrOcamlBasic directives are used. *)
From Coq Require Extraction.
From Coq Require Import ExtrOcamlBasic.
From MV Require Import Arglist.Entry.
Extraction "../extract/C13/model.ml" Arglist.Entry.run.
