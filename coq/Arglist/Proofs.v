(* Arglist/Proofs.v — C13: the lazy CompilerArgs equals its eager meaning for every
   classification (can_dedup, should_prepend) and every operation sequence; the
   clauses of the eager meaning; the contract of the CLike tables.
   Plan: DESIGN.md appendix A.1. *)
From MV Require Import Base.Strs Base.LexFacts Arglist.Model Arglist.Tables Arglist.Ops Arglist.Eager.
From Coq Require Import Lia.
Open Scope N_scope.

(* ------------------------------------------------------------------ membership *)
Lemma str_mem_In a l : str_mem a l = true <-> In a l.
Proof.
  induction l as [|x l IH]; simpl; [split; [discriminate | tauto]|].
  rewrite orb_true_iff, IH, str_eqb_eq. split; intros [H|H]; auto.
Qed.
Lemma str_mem_false a l : str_mem a l = false <-> ~ In a l.
Proof. rewrite <- str_mem_In. destruct (str_mem a l); split; congruence. Qed.
Lemma str_mem_app a l1 l2 : str_mem a (l1 ++ l2) = str_mem a l1 || str_mem a l2.
Proof. induction l1 as [|x l1 IH]; simpl; [reflexivity|]. rewrite IH, orb_assoc. reflexivity. Qed.
Lemma str_mem_rev a l : str_mem a (rev l) = str_mem a l.
Proof.
  induction l as [|x l IH]; simpl; [reflexivity|].
  rewrite str_mem_app, IH. simpl. rewrite orb_false_r, orb_comm. reflexivity.
Qed.
Lemma str_mem_filter a f l : str_mem a (filter f l) = str_mem a l && f a.
Proof.
  induction l as [|x l IH]; simpl; [reflexivity|].
  destruct (f x) eqn:Fx; simpl; rewrite IH.
  - destruct (str_eqb a x) eqn:E; simpl; [|reflexivity].
    apply str_eqb_eq in E. subst. rewrite Fx. reflexivity.
  - destruct (str_eqb a x) eqn:E; simpl; [|reflexivity].
    apply str_eqb_eq in E. subst. rewrite Fx. rewrite andb_false_r. reflexivity.
Qed.
Lemma str_eqb_sym a b : str_eqb a b = str_eqb b a.
Proof.
  destruct (str_eqb a b) eqn:E1, (str_eqb b a) eqn:E2; try reflexivity.
  - apply str_eqb_eq in E1. subst. rewrite str_eqb_refl in E2. discriminate.
  - apply str_eqb_eq in E2. subst. rewrite str_eqb_refl in E1. discriminate.
Qed.

Lemma filter_rev {A} (f : A -> bool) l : filter f (rev l) = rev (filter f l).
Proof.
  induction l as [|x l IH]; simpl; [reflexivity|].
  rewrite filter_app, IH. simpl. destruct (f x); simpl; [reflexivity | rewrite app_nil_r; reflexivity].
Qed.
Lemma filter_filter {A} (f g : A -> bool) l : filter f (filter g l) = filter (fun a => g a && f a) l.
Proof.
  induction l as [|x l IH]; simpl; [reflexivity|].
  destruct (g x); simpl; [destruct (f x); simpl; rewrite IH; reflexivity | exact IH].
Qed.
Lemma filter_all {A} (f : A -> bool) l : (forall a, In a l -> f a = true) -> filter f l = l.
Proof.
  induction l as [|x l IH]; simpl; intros H; [reflexivity|].
  rewrite (H x (or_introl eq_refl)). f_equal. apply IH. intros a Ha. apply H. right. exact Ha.
Qed.
Lemma filter_length_le' {A} (f : A -> bool) l : (length (filter f l) <= length l)%nat.
Proof. induction l as [|x l IH]; simpl; [lia|]. destruct (f x); simpl; lia. Qed.
Lemma filter_none {A} (f : A -> bool) l : (forall a, In a l -> f a = false) -> filter f l = [].
Proof.
  induction l as [|x l IH]; simpl; intros H; [reflexivity|].
  rewrite (H x (or_introl eq_refl)). apply IH. intros a Ha. apply H. right. exact Ha.
Qed.

Section Generic.
  Variable cd : str -> dedup.
  Variable sp : str -> bool.

  Notation is_ov := (is_ov cd).
  Notation is_unique := (is_unique cd).
  Notation kf := (keep_first cd).
  Notation kl := (keep_last cd).
  Notation ob := (overridden_by cd).

  Definition ovs (l : list str) : list str := filter is_ov l.

  Lemma ob_mem b a : ob b a = str_mem a (ovs b).
  Proof. unfold overridden_by, ovs. rewrite str_mem_filter. apply andb_comm. Qed.
  Lemma ob_app b1 b2 a : ob (b1 ++ b2) a = ob b1 a || ob b2 a.
  Proof. unfold overridden_by. rewrite str_mem_app. destruct (is_ov a); reflexivity. Qed.
  Lemma ob_nil a : ob [] a = false.
  Proof. unfold overridden_by. simpl. apply andb_false_r. Qed.
  Lemma ob_rev b a : ob (rev b) a = ob b a.
  Proof. unfold overridden_by. rewrite str_mem_rev. reflexivity. Qed.

  (* ---------------------------------------------------------------- keep_first algebra *)
  Lemma kf_ext s1 s2 l : (forall x, str_mem x s1 = str_mem x s2) -> kf s1 l = kf s2 l.
  Proof.
    revert s1 s2. induction l as [|a l IH]; intros s1 s2 H; simpl; [reflexivity|].
    rewrite <- (H a). destruct (str_mem a s1); [apply IH; exact H|].
    f_equal. apply IH. intros x. destruct (is_ov a); simpl; [rewrite H; reflexivity | apply H].
  Qed.

  (* DESIGN A.1: dropping what is in s1 can be done afterwards *)
  Lemma kf_filter s1 s2 l : kf (s1 ++ s2) l = filter (fun a => negb (str_mem a s1)) (kf s2 l).
  Proof.
    revert s1 s2. induction l as [|a l IH]; intros s1 s2; simpl; [reflexivity|].
    rewrite str_mem_app.
    destruct (str_mem a s2) eqn:M2; [rewrite orb_true_r; apply IH|].
    rewrite orb_false_r. destruct (str_mem a s1) eqn:M1; simpl; rewrite M1; simpl.
    - rewrite <- IH. apply kf_ext. intros x. destruct (is_ov a); [|reflexivity].
      rewrite !str_mem_app. simpl.
      destruct (str_eqb x a) eqn:E; simpl; [|reflexivity].
      apply str_eqb_eq in E. subst. rewrite M1. reflexivity.
    - f_equal. rewrite <- IH. apply kf_ext. intros x. destruct (is_ov a); [|reflexivity].
      rewrite !str_mem_app. simpl. rewrite str_mem_app.
      destruct (str_eqb x a), (str_mem x s1); reflexivity.
  Qed.

  Lemma kf_app s p2 p1 : kf s (p2 ++ p1) = kf s p2 ++ kf (ovs p2 ++ s) p1.
  Proof.
    revert s. induction p2 as [|a p2 IH]; intros s; simpl; [reflexivity|].
    destruct (str_mem a s) eqn:M.
    - rewrite IH. f_equal. apply kf_ext. intros x. unfold ovs. simpl.
      destruct (is_ov a); [|reflexivity]. simpl.
      destruct (str_eqb x a) eqn:E; simpl; [|reflexivity].
      apply str_eqb_eq in E. subst. rewrite str_mem_app, M. apply orb_true_r.
    - simpl. f_equal. rewrite IH. f_equal. apply kf_ext. intros x. unfold ovs. simpl.
      destruct (is_ov a); [|reflexivity]. simpl. rewrite !str_mem_app. simpl.
      destruct (str_eqb x a), (str_mem x (filter is_ov p2)); reflexivity.
  Qed.

  (* L1 *)
  Lemma kf_app_nil p2 p1 : kf [] (p2 ++ p1) = kf [] p2 ++ filter (fun a => negb (ob p2 a)) (kf [] p1).
  Proof.
    rewrite kf_app. f_equal. rewrite kf_filter. apply filter_ext. intros a. rewrite ob_mem. reflexivity.
  Qed.

  Lemma kf_mem x s l : str_mem x (kf s l) = str_mem x l && negb (str_mem x s).
  Proof.
    revert s. induction l as [|a l IH]; intros s; simpl; [reflexivity|].
    destruct (str_mem a s) eqn:M.
    - rewrite IH. destruct (str_eqb x a) eqn:E; simpl; [|reflexivity].
      apply str_eqb_eq in E. subst. rewrite M. simpl. apply andb_false_r.
    - simpl. rewrite IH. destruct (str_eqb x a) eqn:E; simpl.
      + apply str_eqb_eq in E. subst. rewrite M. reflexivity.
      + destruct (is_ov a); [|reflexivity]. simpl. rewrite E. reflexivity.
  Qed.
  Lemma kf_In x s l : In x (kf s l) -> In x l.
  Proof. rewrite <- !str_mem_In, kf_mem. intros H. apply andb_true_iff in H. destruct H as [H _]. exact H. Qed.

  (* a list without override-type members is kept as it is *)
  Lemma kf_no_ov s l : (forall a, In a l -> is_ov a = false) ->
                       kf s l = filter (fun a => negb (str_mem a s)) l.
  Proof.
    revert s. induction l as [|a l IH]; intros s H; simpl; [reflexivity|].
    assert (H' : forall b, In b l -> is_ov b = false) by (intros b Hb; apply H; right; exact Hb).
    destruct (str_mem a s); simpl.
    - apply IH. exact H'.
    - rewrite (H a (or_introl eq_refl)). f_equal. apply IH. exact H'.
  Qed.

  (* keep_first only drops override-type elements *)
  Lemma kf_filter_keeps (f : str -> bool) s l :
    (forall a, f a = true -> is_ov a = false) -> (forall a, str_mem a s = true -> is_ov a = true) ->
    filter f (kf s l) = filter f l.
  Proof.
    intros Hf. revert s. induction l as [|a l IH]; intros s Hs; simpl; [reflexivity|].
    destruct (str_mem a s) eqn:M.
    - destruct (f a) eqn:Fa; [|apply IH; exact Hs].
      apply Hf in Fa. apply Hs in M. congruence.
    - simpl. destruct (f a); [f_equal|]; apply IH; intros x Hx;
        (destruct (is_ov a) eqn:O; [simpl in Hx; apply orb_true_iff in Hx; destruct Hx as [Hx|Hx];
                                    [apply str_eqb_eq in Hx; subst; exact O | apply Hs; exact Hx]
                                   | apply Hs; exact Hx]).
  Qed.

  (* ---------------------------------------------------------------- keep_last *)
  (* L2 *)
  Lemma kl_app q1 q2 : kl (q1 ++ q2) = filter (fun a => negb (ob q2 a)) (kl q1) ++ kl q2.
  Proof.
    unfold keep_last. rewrite rev_app_distr, kf_app_nil, rev_app_distr. f_equal.
    rewrite <- filter_rev. apply filter_ext. intros a. rewrite ob_rev. reflexivity.
  Qed.
  Lemma kl_mem x l : str_mem x (kl l) = str_mem x l.
  Proof. unfold keep_last. rewrite str_mem_rev, kf_mem, str_mem_rev. simpl. apply andb_true_r. Qed.
  Lemma kl_In x l : In x (kl l) -> In x l.
  Proof. rewrite <- !str_mem_In, kl_mem. auto. Qed.
  Lemma kl_nil : kl [] = [].
  Proof. reflexivity. Qed.
  Lemma kl_filter_keeps (f : str -> bool) l :
    (forall a, f a = true -> is_ov a = false) -> filter f (kl l) = filter f l.
  Proof.
    intros Hf. unfold keep_last. rewrite filter_rev, kf_filter_keeps; auto.
    - rewrite <- filter_rev, rev_involutive. reflexivity.
    - simpl. discriminate.
  Qed.

  (* ---------------------------------------------------------------- walk = keep_first *)
  Lemma walk_fst l seen : fst (walk cd l seen) = kf seen l.
  Proof.
    revert seen. induction l as [|a l IH]; intros seen; simpl; [reflexivity|].
    destruct (str_mem a seen); [apply IH|].
    specialize (IH (if is_ov a then a :: seen else seen)).
    destruct (walk cd l (if is_ov a then a :: seen else seen)) as [n s']. simpl in *. f_equal. exact IH.
  Qed.
  Lemma walk_snd_mem x l seen :
    str_mem x (snd (walk cd l seen)) = str_mem x seen || ob l x.
  Proof.
    revert seen. induction l as [|a l IH]; intros seen; simpl.
    - rewrite ob_nil, orb_false_r. reflexivity.
    - unfold overridden_by in *. simpl.
      destruct (str_mem a seen) eqn:M.
      + rewrite IH. destruct (str_eqb x a) eqn:E; simpl; [|reflexivity].
        apply str_eqb_eq in E. subst. rewrite M. reflexivity.
      + specialize (IH (if is_ov a then a :: seen else seen)).
        destruct (walk cd l (if is_ov a then a :: seen else seen)) as [n s']. simpl in *.
        rewrite IH. destruct (is_ov a) eqn:O; simpl.
        * destruct (str_eqb x a) eqn:E; simpl.
          -- apply str_eqb_eq in E. subst. rewrite O. rewrite orb_true_r. reflexivity.
          -- reflexivity.
        * destruct (str_eqb x a) eqn:E; simpl; [|reflexivity].
          apply str_eqb_eq in E. subst. rewrite O. simpl. rewrite orb_false_r. reflexivity.
  Qed.

  (* ---------------------------------------------------------------- abstraction *)
  (* the list a state stands for: what flush_pre_post would leave in _container *)
  Definition abs (s : st) : list str :=
    kf [] (pre s)
    ++ filter (fun a => negb (ob (post s) a) && negb (ob (pre s) a)) (cont s)
    ++ kl (post s).

  (* I1: the fast path of flush is only taken when nothing can be overridden;
     I2: pre holds prepend arguments only, post none *)
  Definition inv (s : st) : Prop :=
    (chk s = false -> (forall a, In a (pre s) -> is_ov a = false) /\ (forall a, In a (post s) -> is_ov a = false))
    /\ (forall a, In a (pre s) -> sp a = true) /\ (forall a, In a (post s) -> sp a = false).

  Lemma abs_init l : abs (init l) = l.
  Proof.
    unfold abs, init. simpl. rewrite kl_nil, app_nil_r. apply filter_all. intros a _.
    rewrite !ob_nil. reflexivity.
  Qed.
  Lemma inv_init l : inv (init l).
  Proof. unfold inv, init; simpl. repeat split; intros; contradiction. Qed.

  Lemma abs_mem x s : str_mem x (abs s) = str_mem x (cont s) || str_mem x (pre s) || str_mem x (post s).
  Proof.
    unfold abs. rewrite !str_mem_app, kf_mem, kl_mem, str_mem_filter. simpl. rewrite andb_true_r.
    unfold overridden_by.
    destruct (str_mem x (cont s)), (str_mem x (pre s)), (str_mem x (post s)), (is_ov x); reflexivity.
  Qed.

  Lemma flush_abs s : inv s -> flush cd s = init (abs s).
  Proof.
    intros [I1 _]. unfold flush, abs, init. destruct (chk s) eqn:C; simpl.
    - pose proof (walk_fst (pre s) []) as F1. pose proof (walk_fst (rev (post s)) []) as F2.
      assert (S1 : forall x, str_mem x (snd (walk cd (pre s) [])) = ob (pre s) x)
        by (intros x; rewrite walk_snd_mem; reflexivity).
      assert (S2 : forall x, str_mem x (snd (walk cd (rev (post s)) [])) = ob (post s) x)
        by (intros x; rewrite walk_snd_mem, ob_rev; reflexivity).
      destruct (walk cd (pre s) []) as [npre pset]. destruct (walk cd (rev (post s)) []) as [rpost qset].
      simpl in *. subst npre rpost. f_equal. f_equal. f_equal.
      apply filter_ext. intros a. rewrite S1, S2. reflexivity.
    - destruct (I1 eq_refl) as [Hp Hq]. f_equal.
      rewrite (kf_no_ov [] (pre s) Hp). unfold keep_last. rewrite (kf_no_ov [] (rev (post s))).
      + rewrite !filter_all; [rewrite rev_involutive; reflexivity | | |]; try (intros; reflexivity).
        intros a _. unfold overridden_by.
        destruct (is_ov a) eqn:O; [|reflexivity]. simpl.
        destruct (str_mem a (post s)) eqn:M1; [apply str_mem_In in M1; apply Hq in M1; congruence|].
        destruct (str_mem a (pre s)) eqn:M2; [apply str_mem_In in M2; apply Hp in M2; congruence|].
        reflexivity.
      + intros a Ha. apply Hq. apply in_rev. exact Ha.
  Qed.

  (* ---------------------------------------------------------------- __iadd__ *)
  Notation uf := (ufilter cd sp).

  Lemma uf_ext p1 p2 b : (forall x, str_mem x p1 = str_mem x p2) -> uf p1 b = uf p2 b.
  Proof.
    revert p1 p2. induction b as [|a b IH]; intros p1 p2 H; simpl; [reflexivity|].
    rewrite <- (H a). destruct (is_unique a && str_mem a p1); [apply IH; exact H|].
    f_equal. apply IH. intros x. destruct (sp a); [apply H|]. rewrite !str_mem_app, H. reflexivity.
  Qed.

  Lemma iadd_step_case c pr tmp po ck a :
    iadd_step cd sp c pr (tmp, po, ck) a =
    if is_unique a && str_mem a (c ++ pr ++ po) then (tmp, po, ck)
    else (if sp a then a :: tmp else tmp, if sp a then po else po ++ [a], ck || is_ov a).
  Proof.
    unfold iadd_step, Model.is_unique, Model.is_ov. rewrite !str_mem_app, orb_assoc.
    destruct (cd a); simpl.
    - destruct (sp a); rewrite orb_false_r; reflexivity.
    - destruct (str_mem a c || str_mem a pr || str_mem a po); [reflexivity|].
      destruct (sp a); rewrite orb_false_r; reflexivity.
    - destruct (sp a); rewrite orb_true_r; reflexivity.
  Qed.

  Lemma iadd_loop_spec c pr b : forall tmp po ck,
    fold_left (iadd_step cd sp c pr) b (tmp, po, ck) =
    (rev (filter sp (uf (c ++ pr ++ po) b)) ++ tmp,
     po ++ filter (fun a => negb (sp a)) (uf (c ++ pr ++ po) b),
     ck || existsb is_ov (uf (c ++ pr ++ po) b)).
  Proof.
    induction b as [|a b IH]; intros tmp po ck.
    - simpl. rewrite app_nil_r, orb_false_r. reflexivity.
    - cbn [fold_left ufilter]. rewrite iadd_step_case.
      destruct (is_unique a && str_mem a (c ++ pr ++ po)); [apply IH|].
      rewrite IH. destruct (sp a) eqn:P.
      + cbn [filter existsb]. rewrite P. cbn [negb rev]. rewrite <- (app_assoc _ [a] tmp), orb_assoc. reflexivity.
      + replace (c ++ pr ++ po ++ [a]) with ((c ++ pr ++ po) ++ [a]) by (rewrite <- !app_assoc; reflexivity).
        cbn [filter existsb]. rewrite P. cbn [negb]. rewrite <- (app_assoc po [a] _), orb_assoc. reflexivity.
  Qed.

  Lemma extendleft_spec tmp p : fold_left (fun (p : list str) x => x :: p) tmp p = rev tmp ++ p.
  Proof.
    revert p. induction tmp as [|x tmp IH]; intros p; simpl; [reflexivity|].
    rewrite IH, <- app_assoc. reflexivity.
  Qed.

  Lemma iadd_spec s b :
    let b' := uf (cont s ++ pre s ++ post s) b in
    iadd cd sp s b = mkst (cont s) (filter sp b' ++ pre s)
                          (post s ++ filter (fun a => negb (sp a)) b') (chk s || existsb is_ov b').
  Proof.
    unfold iadd. rewrite iadd_loop_spec. rewrite extendleft_spec, app_nil_r, rev_involutive. reflexivity.
  Qed.

  Lemma uf_sub p b x : In x (uf p b) -> In x b.
  Proof.
    revert p. induction b as [|a b IH]; intros p; simpl; [tauto|].
    destruct (is_unique a && str_mem a p); simpl; intros H.
    - right. eapply IH. exact H.
    - destruct H as [H|H]; [left; exact H | right; eapply IH; exact H].
  Qed.

  Lemma inv_iadd s b : inv s -> inv (iadd cd sp s b).
  Proof.
    intros [I1 [Ip Iq]]. rewrite iadd_spec. unfold inv. simpl. split; [|split].
    - intros C. apply orb_false_iff in C. destruct C as [C1 C2].
      destruct (I1 C1) as [Hp Hq].
      assert (N : forall a, In a (uf (cont s ++ pre s ++ post s) b) -> is_ov a = false).
      { intros a Ha. destruct (is_ov a) eqn:O; [|reflexivity].
        assert (X : existsb is_ov (uf (cont s ++ pre s ++ post s) b) = true)
          by (apply existsb_exists; exists a; split; assumption).
        congruence. }
      split; intros a Ha; apply in_app_or in Ha; destruct Ha as [Ha|Ha]; auto;
        apply filter_In in Ha; apply N; tauto.
    - intros a Ha. apply in_app_or in Ha. destruct Ha as [Ha|Ha]; [|auto].
      apply filter_In in Ha. tauto.
    - intros a Ha. apply in_app_or in Ha. destruct Ha as [Ha|Ha]; [auto|].
      apply filter_In in Ha. destruct Ha as [_ Ha]. destruct (sp a); [discriminate | reflexivity].
  Qed.

  (* the step of DESIGN A.1: one += on the lazy state is the eager += on the list it stands for *)
  Lemma abs_iadd s b : inv s -> abs (iadd cd sp s b) = eager_iadd cd sp (abs s) b.
  Proof.
    intros [_ [Ip Iq]]. rewrite iadd_spec. cbv zeta. unfold eager_iadd.
    rewrite (uf_ext (abs s) (cont s ++ pre s ++ post s) b)
      by (intros x; rewrite abs_mem, !str_mem_app, orb_assoc; reflexivity).
    set (b' := uf (cont s ++ pre s ++ post s) b).
    set (P := filter sp b'). set (Q := filter (fun a => negb (sp a)) b').
    assert (OB : forall a, ob b' a = ob P a || ob Q a).
    { intros a. unfold overridden_by, P, Q. rewrite !str_mem_filter.
      destruct (is_ov a), (str_mem a b'), (sp a); reflexivity. }
    assert (OBP : forall a, sp a = true -> ob Q a = false).
    { intros a Ha. unfold overridden_by, Q. rewrite str_mem_filter, Ha. simpl. rewrite !andb_false_r. reflexivity. }
    assert (OBQ : forall a, sp a = false -> ob P a = false).
    { intros a Ha. unfold overridden_by, P. rewrite str_mem_filter, Ha. rewrite !andb_false_r. reflexivity. }
    unfold abs at 1. simpl.
    rewrite kf_app_nil, kl_app. unfold abs. rewrite !filter_app, filter_filter.
    rewrite <- !app_assoc. f_equal. f_equal; [|f_equal; [|f_equal]].
    - apply filter_ext_in. intros a Ha. apply kf_In in Ha. rewrite OB, (OBP a (Ip a Ha)), orb_false_r. reflexivity.
    - apply filter_ext. intros a. rewrite OB, !ob_app.
      destruct (ob (post s) a), (ob (pre s) a), (ob P a), (ob Q a); reflexivity.
    - apply filter_ext_in. intros a Ha. apply kl_In in Ha. rewrite OB, (OBQ a (Iq a Ha)). reflexivity.
  Qed.
End Generic.

(* ------------------------------------------------------------------ refinement, operation by operation *)
Section Refine.
  Variable K : cfg.
  Let cd := c_cd K.
  Let sp := c_sp K.

  (* the lazy state s stands for the plain list l *)
  Definition R (s : st) (l : list str) : Prop := inv cd sp s /\ abs cd s = l.

  Lemma R_init l : R (init l) l.
  Proof. split; [apply inv_init | apply abs_init]. Qed.
  Lemma R_flush s l : R s l -> flush cd s = init l.
  Proof. intros [I A]. rewrite (flush_abs cd sp s I), A. reflexivity. Qed.
  Lemma R_iadd s l b : R s l -> R (iadd cd sp s b) (eager_iadd cd sp l b).
  Proof. intros [I A]. split; [apply inv_iadd; exact I | rewrite abs_iadd, A; auto]. Qed.

  Lemma R_append_direct s l a : R s l -> R (append_direct cd sp s a) (eager_append_direct cd sp l a).
  Proof.
    intros H. unfold append_direct, eager_append_direct. rewrite (R_flush s l H).
    destruct (isabs a); [apply R_iadd, R_init | apply R_init].
  Qed.
  Lemma R_fold_append_direct b : forall s l, R s l ->
    R (fold_left (append_direct cd sp) b s) (fold_left (eager_append_direct cd sp) b l).
  Proof.
    induction b as [|a b IH]; intros s l H; simpl; [exact H|].
    apply IH. apply R_append_direct. exact H.
  Qed.

  Lemma step_refines s l o : R s l ->
    snd (step K s o) = snd (estep K l o) /\ R (fst (step K s o)) (fst (estep K l o)).
  Proof.
    intros H. pose proof (R_flush s l H) as F.
    destruct o; cbn [step estep]; fold cd sp; rewrite ?F; cbn [cont init fst snd].
    - split; [reflexivity | apply R_iadd; exact H].
    - split; [reflexivity | apply R_iadd; exact H].
    - split; [reflexivity | apply R_init].
    - destruct (py_index (length l) i); split; try reflexivity; apply R_init.
    - destruct (py_index (length l) i); split; try reflexivity; apply R_init.
    - destruct (py_index (length l) i); split; try reflexivity; apply R_init.
    - split; [reflexivity | apply R_init].
    - split; [reflexivity | apply R_init].
    - split; [reflexivity | apply R_init].
    - split; [reflexivity | apply R_init].
    - split; [reflexivity | apply R_append_direct; exact H].
    - split; [reflexivity|]. unfold extend_direct. rewrite F. apply R_fold_append_direct, R_init.
    - split; [reflexivity|]. unfold extend_preserving_lflags, extend_direct.
      rewrite (R_flush _ _ (R_iadd s l _ H)). apply R_fold_append_direct, R_init.
    - split; [reflexivity | apply R_iadd, R_init].
    - split; [reflexivity | apply R_iadd, R_init].
    - split; [reflexivity | apply R_init].
    - rewrite (R_flush _ _ (R_iadd _ _ b (R_init b0))). split; [reflexivity | apply R_init].
    - destruct (tn_list (c_clike K) (c_gnu K) (c_ddirs K) l) as [l' ok].
      destruct copy; split; try reflexivity; apply R_init.
    - split; [reflexivity | apply R_init].
    - destruct (remove_first l a); split; try reflexivity; apply R_init.
    - split; [reflexivity | apply R_init].
  Qed.

  Theorem run_refines ops : forall s l, R s l -> run_ops K s ops = erun K l ops.
  Proof.
    induction ops as [|o ops IH]; intros s l H; simpl.
    - fold cd. rewrite (R_flush s l H). reflexivity.
    - destruct (step_refines s l o H) as [Ho Hs].
      destruct (step K s o) as [s' ob]. destruct (estep K l o) as [l' ob']. simpl in *.
      subst ob'. f_equal. apply IH. exact Hs.
  Qed.

  (* every reachable state stands for the list the eager run has reached *)
  Fixpoint final_state (s : st) (ops : list op) : st :=
    match ops with [] => s | o :: r => final_state (fst (step K s o)) r end.
  Fixpoint final_list (l : list str) (ops : list op) : list str :=
    match ops with [] => l | o :: r => final_list (fst (estep K l o)) r end.
  Lemma final_refines ops : forall s l, R s l -> R (final_state s ops) (final_list l ops).
  Proof.
    induction ops as [|o ops IH]; intros s l H; simpl; [exact H|].
    apply IH. apply step_refines. exact H.
  Qed.
End Refine.

(* C13, first sentence: however the line is assembled (any classification tables, any
   compiler configuration, any initial list, any sequence of operations with reads
   and copies in between) every answer equals that of the eager meaning. *)
Theorem lazy_equals_eager : forall (K : cfg) (ini : list str) (ops : list op),
  run_ops K (init ini) ops = erun K ini ops.
Proof. intros. apply run_refines. apply R_init. Qed.

(* ... and the invariant that makes the fast path of flush_pre_post legal holds in
   every reachable state *)
Theorem fast_path_legal : forall (K : cfg) (ini : list str) (ops : list op),
  let s := final_state K (init ini) ops in
  chk s = false -> forall a, In a (pre s ++ post s) -> is_ov (c_cd K) a = false.
Proof.
  intros K ini ops s C a Ha.
  destruct (final_refines K ops (init ini) ini (R_init K ini)) as [[I1 _] _].
  destruct (I1 C) as [Hp Hq]. apply in_app_or in Ha. destruct Ha; auto.
Qed.

(* ------------------------------------------------------------------ the clauses of the eager meaning *)
Lemma nodup_app_inv {A} (l b : list A) : NoDup (l ++ b) -> NoDup l /\ NoDup b /\ (forall a, In a l -> ~ In a b).
Proof.
  induction l as [|x l IH]; simpl; intros H.
  - repeat split; [constructor | exact H | tauto].
  - apply NoDup_cons_iff in H. destruct H as [Hx H]. destruct (IH H) as [H1 [H2 H3]].
    repeat split; [|exact H2|].
    + apply NoDup_cons_iff. split; [|exact H1]. intros C. apply Hx. apply in_or_app. left. exact C.
    + intros a [->|Ha] C; [apply Hx; apply in_or_app; right; exact C | exact (H3 a Ha C)].
Qed.

Lemma dedup_eqb_eq a b : dedup_eqb a b = true <-> a = b.
Proof. destruct a, b; simpl; split; congruence. Qed.

Definition count (a : str) (l : list str) : nat := length (filter (str_eqb a) l).
Lemma count_app a l1 l2 : count a (l1 ++ l2) = (count a l1 + count a l2)%nat.
Proof. unfold count. rewrite filter_app, app_length. reflexivity. Qed.

Section Clauses.
  Variable cd : str -> dedup.
  Variable sp : str -> bool.
  Notation is_ov := (is_ov cd).
  Notation is_unique := (is_unique cd).
  Notation kf := (keep_first cd).
  Notation kl := (keep_last cd).
  Notation ob := (overridden_by cd).
  Notation uf := (ufilter cd sp).
  Notation eiadd := (eager_iadd cd sp).
  Definition is_nodedup (a : str) : bool := dedup_eqb (cd a) NO_DEDUP.

  Lemma kinds_exclusive a :
    (is_unique a = true -> is_ov a = false) /\ (is_nodedup a = true -> is_ov a = false /\ is_unique a = false).
  Proof. unfold Model.is_unique, Model.is_ov, is_nodedup. destruct (cd a); simpl; repeat split; congruence. Qed.

  (* --- nothing lost, nothing invented *)
  Lemma uf_mem x b : forall p, str_mem x (uf p b) || str_mem x p = str_mem x b || str_mem x p.
  Proof.
    induction b as [|a b IH]; intros p; [reflexivity|]. cbn [ufilter str_mem].
    destruct (is_unique a && str_mem a p) eqn:C.
    - rewrite IH. destruct (str_eqb x a) eqn:E; [|reflexivity].
      apply str_eqb_eq in E. subst. apply andb_true_iff in C. destruct C as [_ C]. rewrite C.
      rewrite !orb_true_r. reflexivity.
    - cbn [str_mem]. destruct (str_eqb x a) eqn:E; [reflexivity|]. cbn [orb].
      destruct (sp a); [apply IH|].
      specialize (IH (p ++ [a])). rewrite str_mem_app in IH. cbn [str_mem] in IH. rewrite E in IH.
      cbn [orb] in IH. rewrite !orb_false_r in IH. exact IH.
  Qed.

  Theorem eager_iadd_mem x l b : str_mem x (eiadd l b) = str_mem x l || str_mem x b.
  Proof.
    unfold eager_iadd. rewrite !str_mem_app, kf_mem, kl_mem, !str_mem_filter.
    pose proof (uf_mem x b l) as U. unfold overridden_by. cbn [str_mem].
    destruct (str_mem x (uf l b)), (str_mem x l), (str_mem x b), (sp x), (is_ov x); simpl in *; congruence.
  Qed.
  Theorem eager_iadd_In x l b : In x (eiadd l b) <-> In x l \/ In x b.
  Proof. rewrite <- !str_mem_In, eager_iadd_mem, orb_true_iff. reflexivity. Qed.

  (* --- nothing to de-duplicate: prepend batch in front in its own order, the rest behind in order *)
  Lemma uf_fresh b : forall p, NoDup b -> (forall a, In a b -> ~ In a p) -> uf p b = b.
  Proof.
    induction b as [|a b IH]; intros p N H; [reflexivity|]. cbn [ufilter].
    apply NoDup_cons_iff in N. destruct N as [Na N].
    assert (M : str_mem a p = false) by (apply str_mem_false; apply H; left; reflexivity).
    rewrite M, andb_false_r. f_equal. apply IH; [exact N|].
    intros x Hx C. destruct (sp a).
    - exact (H x (or_intror Hx) C).
    - apply in_app_or in C. destruct C as [C|[C|[]]]; [exact (H x (or_intror Hx) C) | subst; auto].
  Qed.
  Lemma kf_nodup l : forall s, NoDup l -> (forall a, In a l -> ~ In a s) -> kf s l = l.
  Proof.
    induction l as [|a l IH]; intros s N H; [reflexivity|]. cbn [keep_first].
    apply NoDup_cons_iff in N. destruct N as [Na N].
    assert (M : str_mem a s = false) by (apply str_mem_false; apply H; left; reflexivity).
    rewrite M. f_equal. apply IH; [exact N|].
    intros x Hx C. destruct (is_ov a); [destruct C as [C|C]; [subst; auto|]|]; exact (H x (or_intror Hx) C).
  Qed.

  Theorem fresh_batch_placement l b : NoDup (l ++ b) ->
    eiadd l b = filter sp b ++ l ++ filter (fun a => negb (sp a)) b.
  Proof.
    intros N. destruct (nodup_app_inv l b N) as [_ [Nb D]]. unfold eager_iadd.
    rewrite (uf_fresh b l Nb) by (intros a Ha C; exact (D a C Ha)).
    rewrite kf_nodup; [|apply NoDup_filter; exact Nb | intros a _ []].
    unfold keep_last. rewrite kf_nodup; [|apply NoDup_rev, NoDup_filter; exact Nb | intros a _ []].
    rewrite rev_involutive. f_equal. f_equal. apply filter_all. intros a Ha.
    unfold overridden_by. apply D in Ha. apply str_mem_false in Ha. rewrite Ha, andb_false_r. reflexivity.
  Qed.

  (* --- where an added argument ends up *)
  Lemma uf_app b1 b2 : forall p,
    uf p (b1 ++ b2) = uf p b1 ++ uf (p ++ filter (fun a => negb (sp a)) (uf p b1)) b2.
  Proof.
    induction b1 as [|a b1 IH]; intros p; cbn [ufilter app filter]; [rewrite app_nil_r; reflexivity|].
    destruct (is_unique a && str_mem a p); [apply IH|].
    cbn [app filter]. f_equal. rewrite IH. f_equal. destruct (sp a); cbn [negb]; [reflexivity|].
    rewrite <- app_assoc. reflexivity.
  Qed.

  (* an argument of the appending kind: behind its last occurrence in the batch come only
     appended arguments that the batch adds after it; if it is override-type no other
     occurrence survives - so it is behind (takes effect after) everything added earlier *)
  Theorem append_position l b1 y b2 :
    sp y = false -> is_unique y = false -> ~ In y b2 ->
    exists X S, eiadd l (b1 ++ y :: b2) = X ++ y :: S
                /\ (forall x, In x S -> In x b2 /\ sp x = false)
                /\ ~ In y S
                /\ (is_ov y = true -> ~ In y X).
  Proof.
    intros Py Uy Ny. unfold eager_iadd. rewrite uf_app. cbn [ufilter]. rewrite Uy. cbn [andb].
    set (B1 := uf l b1). rewrite Py.
    set (B2 := uf ((l ++ filter (fun a => negb (sp a)) B1) ++ [y]) b2).
    set (b' := B1 ++ y :: B2).
    assert (EQ : filter (fun a => negb (sp a)) b' =
                 (filter (fun a => negb (sp a)) B1 ++ [y]) ++ filter (fun a => negb (sp a)) B2).
    { unfold b'. rewrite filter_app. cbn [filter]. rewrite Py. cbn [negb]. rewrite <- app_assoc. reflexivity. }
    rewrite EQ, kl_app, kl_app.
    set (Q1 := filter (fun a => negb (sp a)) B1). set (Q2 := filter (fun a => negb (sp a)) B2).
    assert (S2 : forall x, In x Q2 -> In x b2 /\ sp x = false).
    { intros x Hx. apply filter_In in Hx. destruct Hx as [Hx Px]. split.
      - eapply uf_sub. exact Hx.
      - destruct (sp x); [discriminate | reflexivity]. }
    assert (OY : ob Q2 y = false).
    { unfold overridden_by. destruct (str_mem y Q2) eqn:M; [|apply andb_false_r].
      apply str_mem_In in M. apply S2 in M. tauto. }
    replace (kl [y]) with [y] by reflexivity.
    rewrite filter_app. cbn [filter]. rewrite OY. cbn [negb].
    exists (kf [] (filter sp b') ++ filter (fun a => negb (ob b' a)) l
            ++ filter (fun a => negb (ob Q2 a)) (filter (fun a => negb (ob [y] a)) (kl Q1))), (kl Q2).
    split; [rewrite <- !app_assoc; reflexivity|]. split; [|split].
    - intros x Hx. apply S2. apply kl_In in Hx. exact Hx.
    - intros C. apply kl_In in C. apply S2 in C. tauto.
    - intros Oy C. apply in_app_or in C. destruct C as [C|C]; [|apply in_app_or in C; destruct C as [C|C]].
      + apply kf_In in C. apply filter_In in C. destruct C as [_ C]. congruence.
      + apply filter_In in C. destruct C as [_ C]. unfold overridden_by, b' in C.
        rewrite Oy, str_mem_app in C. cbn [str_mem] in C. rewrite str_eqb_refl, orb_true_r in C. discriminate.
      + apply filter_In in C. destruct C as [C _]. apply filter_In in C. destruct C as [_ C].
        unfold overridden_by in C. cbn [str_mem] in C. rewrite Oy, str_eqb_refl in C. discriminate.
  Qed.

  (* an argument of the prepending kind: in front of its first occurrence in the batch come
     only prepended arguments that the batch lists before it; if it is override-type no other
     occurrence survives - so it is in front of (searched before) everything added earlier *)
  Theorem prepend_position l b1 y b2 :
    sp y = true -> is_unique y = false -> ~ In y b1 ->
    exists X S, eiadd l (b1 ++ y :: b2) = X ++ y :: S
                /\ (forall x, In x X -> In x b1 /\ sp x = true)
                /\ ~ In y X
                /\ (is_ov y = true -> ~ In y S).
  Proof.
    intros Py Uy Ny. unfold eager_iadd. rewrite uf_app. cbn [ufilter]. rewrite Uy. cbn [andb].
    set (B1 := uf l b1). rewrite Py.
    set (B2 := uf (l ++ filter (fun a => negb (sp a)) B1) b2).
    set (b' := B1 ++ y :: B2).
    assert (EQ : filter sp b' = filter sp B1 ++ y :: filter sp B2).
    { unfold b'. rewrite filter_app. cbn [filter]. rewrite Py. reflexivity. }
    rewrite EQ, kf_app. cbn [keep_first].
    set (P1 := filter sp B1).
    assert (S1 : forall x, In x P1 -> In x b1 /\ sp x = true).
    { intros x Hx. apply filter_In in Hx. destruct Hx as [Hx Px]. split; [eapply uf_sub; exact Hx | exact Px]. }
    assert (M : str_mem y (ovs cd P1 ++ []) = false).
    { apply str_mem_false. rewrite app_nil_r. intros C. apply filter_In in C. destruct C as [C _].
      apply S1 in C. tauto. }
    rewrite M.
    eexists (kf [] P1), _. split; [rewrite <- app_assoc; reflexivity|]. split; [|split].
    - intros x Hx. apply kf_In in Hx. apply S1. exact Hx.
    - intros C. apply kf_In in C. apply S1 in C. tauto.
    - intros Oy C. rewrite Oy in C. apply in_app_or in C. destruct C as [C|C]; [|apply in_app_or in C; destruct C as [C|C]].
      + apply str_mem_In in C. rewrite kf_mem in C. cbn [str_mem] in C. rewrite str_eqb_refl in C.
        rewrite andb_false_r in C. discriminate.
      + apply filter_In in C. destruct C as [_ C]. unfold overridden_by, b' in C.
        rewrite Oy, str_mem_app in C. cbn [str_mem] in C. rewrite str_eqb_refl, orb_true_r in C. discriminate.
      + apply kl_In in C. apply filter_In in C. destruct C as [_ C]. rewrite Py in C. discriminate.
  Qed.

  (* --- a repeat of a once-only argument is dropped *)
  Lemma uf_count_unique a b : is_unique a = true -> sp a = false -> forall p,
    count a (uf p b) = if str_mem a p then 0%nat else if str_mem a b then 1%nat else 0%nat.
  Proof.
    intros Ua Pa. induction b as [|x b IH]; intros p; cbn [ufilter str_mem].
    - destruct (str_mem a p); reflexivity.
    - destruct (str_eqb a x) eqn:E.
      + apply str_eqb_eq in E. subst x. rewrite Ua. cbn [andb orb].
        destruct (str_mem a p) eqn:M.
        * rewrite IH, M. reflexivity.
        * rewrite Pa. unfold count. cbn [filter]. rewrite str_eqb_refl. cbn [length].
          fold (count a (uf (p ++ [a]) b)). rewrite IH, str_mem_app. cbn [str_mem].
          rewrite str_eqb_refl, orb_true_r. reflexivity.
      + cbn [orb]. destruct (is_unique x && str_mem x p).
        * apply IH.
        * unfold count. cbn [filter]. rewrite E. fold (count a (uf (if sp x then p else p ++ [x]) b)).
          rewrite IH. destruct (sp x); [reflexivity|].
          rewrite str_mem_app. cbn [str_mem]. rewrite E. rewrite !orb_false_r. reflexivity.
  Qed.

  Theorem unique_once l b a : is_unique a = true -> sp a = false ->
    count a (eiadd l b) = if str_mem a l then count a l else if str_mem a b then 1%nat else 0%nat.
  Proof.
    intros Ua Pa. destruct (kinds_exclusive a) as [Oa _]. specialize (Oa Ua).
    assert (EQ : forall x, str_eqb a x = true -> x = a) by (intros x H; apply str_eqb_eq in H; congruence).
    unfold eager_iadd. rewrite !count_app.
    assert (C1 : count a (kf [] (filter sp (uf l b))) = 0%nat).
    { unfold count. rewrite filter_none; [reflexivity|]. intros x Hx. apply kf_In in Hx.
      apply filter_In in Hx. destruct Hx as [_ Hx]. destruct (str_eqb a x) eqn:E; [|reflexivity].
      apply EQ in E. subst. congruence. }
    assert (C2 : count a (filter (fun x => negb (ob (uf l b) x)) l) = count a l).
    { unfold count. rewrite filter_filter. f_equal. apply filter_ext. intros x.
      destruct (str_eqb a x) eqn:E; [|apply andb_false_r].
      apply EQ in E. subst. unfold overridden_by. rewrite Oa. reflexivity. }
    assert (C3 : count a (kl (filter (fun x => negb (sp x)) (uf l b))) = count a (uf l b)).
    { unfold count. rewrite kl_filter_keeps by (intros x H; apply EQ in H; subst; exact Oa).
      rewrite filter_filter. f_equal. apply filter_ext. intros x.
      destruct (str_eqb a x) eqn:E; [|apply andb_false_r]. apply EQ in E. subst. rewrite Pa. reflexivity. }
    rewrite C1, C2, C3, (uf_count_unique a b Ua Pa l).
    destruct (str_mem a l) eqn:M; [lia|].
    assert (C0 : count a l = 0%nat).
    { unfold count. rewrite filter_none; [reflexivity|]. intros x Hx.
      destruct (str_eqb a x) eqn:E; [|reflexivity]. apply EQ in E. subst.
      apply str_mem_In in Hx. congruence. }
    lia.
  Qed.

  (* --- arguments that cannot be de-duplicated keep their relative order and multiplicity *)
  Lemma uf_filter_keeps (f : str -> bool) b : (forall a, f a = true -> is_unique a = false) ->
    forall p, filter f (uf p b) = filter f b.
  Proof.
    intros Hf. induction b as [|a b IH]; intros p; cbn [ufilter filter]; [reflexivity|].
    destruct (is_unique a && str_mem a p) eqn:C.
    - apply andb_true_iff in C. destruct C as [C _].
      destruct (f a) eqn:Fa; [apply Hf in Fa; congruence | apply IH].
    - cbn [filter]. destruct (f a); [f_equal|]; apply IH.
  Qed.

  Theorem nodedup_order l b : (forall a, is_nodedup a = true -> sp a = false) ->
    filter is_nodedup (eiadd l b) = filter is_nodedup l ++ filter is_nodedup b.
  Proof.
    intros H. unfold eager_iadd. rewrite !filter_app.
    rewrite (filter_none is_nodedup (kf [] _)).
    2:{ intros a Ha. apply kf_In in Ha. apply filter_In in Ha. destruct Ha as [_ Ha].
        destruct (is_nodedup a) eqn:N; [apply H in N; congruence | reflexivity]. }
    cbn [app]. f_equal.
    - rewrite filter_filter. apply filter_ext. intros a. destruct (is_nodedup a) eqn:N; [|apply andb_false_r].
      destruct (kinds_exclusive a) as [_ K]. destruct (K N) as [Oa _]. unfold overridden_by. rewrite Oa. reflexivity.
    - rewrite kl_filter_keeps by (intros a N; destruct (kinds_exclusive a) as [_ K]; destruct (K N); assumption).
      rewrite filter_filter.
      rewrite <- (uf_filter_keeps is_nodedup b) with (p := l)
        by (intros a N; destruct (kinds_exclusive a) as [_ K]; destruct (K N); assumption).
      apply filter_ext. intros a. destruct (is_nodedup a) eqn:N; [|apply andb_false_r].
      rewrite (H a N). reflexivity.
  Qed.

  (* --- len() of the code as shipped counts pending entries that a read will merge *)
  Lemma kf_length l : forall s, (length (kf s l) <= length l)%nat.
  Proof.
    induction l as [|a l IH]; intros s; cbn [keep_first length]; [lia|].
    destruct (str_mem a s); [specialize (IH s); lia|]. cbn [length].
    specialize (IH (if is_ov a then a :: s else s)). lia.
  Qed.
  Theorem len_unflushed_ge s : (length (abs cd s) <= len_unflushed s)%nat.
  Proof.
    unfold abs, len_unflushed. rewrite !app_length. unfold keep_last. rewrite rev_length.
    pose proof (kf_length (pre s) []). pose proof (kf_length (rev (post s)) []). rewrite rev_length in *.
    pose proof (filter_length_le' (fun a => negb (ob (post s) a) && negb (ob (pre s) a)) (cont s)). lia.
  Qed.
  Theorem len_unflushed_partial s : pre s = [] -> post s = [] -> len_unflushed s = length (abs cd s).
  Proof.
    intros Hp Hq. unfold abs, len_unflushed. rewrite Hp, Hq. cbn [keep_first length app].
    rewrite kl_nil, app_nil_r, filter_all; [lia|]. intros a _. rewrite !ob_nil. reflexivity.
  Qed.
End Clauses.

(* ------------------------------------------------------------------ the contract of the CLike tables *)
Lemma str_mem_starts a ps : str_mem a ps = true -> starts_any ps a = true.
Proof.
  induction ps as [|p ps IH]; simpl; [discriminate|]. intros H. apply orb_true_iff in H.
  apply orb_true_iff. destruct H as [H|H]; [left | right; apply IH; exact H].
  apply str_eqb_eq in H. subst. rewrite <- (app_nil_r p) at 2. apply prefixb_app.
Qed.

(* -Ix / -Lx (x non-empty): override-type, prepended *)
Lemma clike_I x r : clike_cd (s2l "-I" ++ x :: r) = OVERRIDDEN /\ clike_sp (s2l "-I" ++ x :: r) = true.
Proof. vm_compute. split; reflexivity. Qed.
Lemma clike_L x r : clike_cd (s2l "-L" ++ x :: r) = OVERRIDDEN /\ clike_sp (s2l "-L" ++ x :: r) = true.
Proof. vm_compute. split; reflexivity. Qed.
(* -Dx / -Ux / -isystemx : override-type, appended *)
Lemma clike_D x r : clike_cd (s2l "-D" ++ x :: r) = OVERRIDDEN /\ clike_sp (s2l "-D" ++ x :: r) = false.
Proof. vm_compute. split; reflexivity. Qed.
Lemma clike_U x r : clike_cd (s2l "-U" ++ x :: r) = OVERRIDDEN /\ clike_sp (s2l "-U" ++ x :: r) = false.
Proof. vm_compute. split; reflexivity. Qed.
Lemma clike_isystem x r :
  clike_cd (s2l "-isystem" ++ x :: r) = OVERRIDDEN /\ clike_sp (s2l "-isystem" ++ x :: r) = false.
Proof. vm_compute. split; reflexivity. Qed.
(* the bare words: never de-duplicated, never moved *)
Lemma clike_bare :
  forall a, In a (map s2l ["-I"; "-L"; "-D"; "-U"; "-isystem"; "-l"]%string) ->
            clike_cd a = NO_DEDUP /\ clike_sp a = false.
Proof. intros a H. simpl in H. repeat (destruct H as [<-|H]; [vm_compute; split; reflexivity|]). contradiction. Qed.
(* -lfoo, -pthread and friends: once-only, appended *)
Lemma clike_l x r : clike_cd (s2l "-l" ++ x :: r) = UNIQUE /\ clike_sp (s2l "-l" ++ x :: r) = false.
Proof. vm_compute. split; reflexivity. Qed.
Lemma clike_once_args :
  forall a, In a (map s2l ["-c"; "-S"; "-E"; "-pipe"; "-pthread"; "-Wl,--export-dynamic"]%string) ->
            clike_cd a = UNIQUE /\ clike_sp a = false.
Proof. intros a H. simpl in H. repeat (destruct H as [<-|H]; [vm_compute; split; reflexivity|]). contradiction. Qed.

(* a library file (.a .so .lib .dll .dylib) that does not look like one of the prefixed options: once-only *)
Lemma clike_libfile a :
  ends_any (dedup1_suffixes clike_tables) a = true ->
  starts_any (dedup2_prefixes clike_tables) a = false ->
  str_mem a (dedup1_prefixes clike_tables) = false ->
  clike_cd a = UNIQUE.
Proof.
  intros H1 H2 H3. unfold clike_cd, can_dedup. rewrite H3, H2, H1.
  destruct (str_mem a (dedup2_prefixes clike_tables)) eqn:M; [apply str_mem_starts in M; congruence|].
  change (dedup2_args clike_tables) with (@nil str). change (dedup2_suffixes clike_tables) with (@nil str).
  cbn [str_mem ends_any existsb orb]. rewrite orb_true_r. reflexivity.
Qed.

(* what is prepended is exactly -I<x> / -L<x> with x non-empty ... *)
Lemma clike_sp_true a : clike_sp a = true ->
  exists x r, a = s2l "-I" ++ x :: r \/ a = s2l "-L" ++ x :: r.
Proof.
  unfold clike_sp, should_prepend.
  change (prepend_prefixes clike_tables) with [s2l "-I"; s2l "-L"].
  destruct (str_mem a [s2l "-I"; s2l "-L"]) eqn:M; [discriminate|].
  unfold starts_any. cbn [existsb]. rewrite orb_false_r. intros H. apply orb_true_iff in H.
  destruct H as [H|H]; apply prefixb_spec in H; destruct H as [r ->]; destruct r as [|x r].
  - vm_compute in M. discriminate.
  - exists x, r. left. reflexivity.
  - vm_compute in M. discriminate.
  - exists x, r. right. reflexivity.
Qed.
(* ... hence only override-type arguments are ever moved to the front *)
Theorem clike_prepend_only_override a : clike_sp a = true -> clike_cd a = OVERRIDDEN.
Proof.
  intros H. destruct (clike_sp_true a H) as [x [r [-> | ->]]]; [apply clike_I | apply clike_L].
Qed.
Theorem clike_unique_not_prepend a : clike_cd a = UNIQUE -> clike_sp a = false.
Proof. intros H. destruct (clike_sp a) eqn:S; [apply clike_prepend_only_override in S; congruence | reflexivity]. Qed.
Theorem clike_nodedup_not_prepend a : is_nodedup clike_cd a = true -> clike_sp a = false.
Proof.
  unfold is_nodedup. intros H. apply dedup_eqb_eq in H.
  destruct (clike_sp a) eqn:S; [apply clike_prepend_only_override in S; congruence | reflexivity].
Qed.

(* for the CLike tables: the never-de-duplicated arguments keep order and multiplicity *)
Theorem clike_nodedup_order l b :
  filter (is_nodedup clike_cd) (eager_iadd clike_cd clike_sp l b) =
  filter (is_nodedup clike_cd) l ++ filter (is_nodedup clike_cd) b.
Proof. apply nodedup_order. exact clike_nodedup_not_prepend. Qed.

(* ------------------------------------------------------------------ the code as shipped (before the pending fixes) *)
(* arglist.py:234-237 as shipped prepends the bare word "-I" too and tears it from its operand *)
Theorem bare_prefix_refuted :
  exists l b, filter (is_nodedup clike_cd) (eager_iadd clike_cd (should_prepend_prefix_only clike_tables) l b)
              <> filter (is_nodedup clike_cd) l ++ filter (is_nodedup clike_cd) b.
Proof. exists [s2l "foo"], [s2l "-I"; s2l "inc"]. vm_compute. discriminate. Qed.
(* the same statement is true for the shipped rule when no bare prefix is added *)
Theorem bare_prefix_partial l b :
  (forall a, In a b -> str_mem a (prepend_prefixes clike_tables) = false) ->
  eager_iadd clike_cd (should_prepend_prefix_only clike_tables) l b = eager_iadd clike_cd clike_sp l b.
Proof.
  intros H.
  assert (E : forall a, In a b -> should_prepend_prefix_only clike_tables a = clike_sp a).
  { intros a Ha. unfold clike_sp, should_prepend. rewrite (H a Ha). reflexivity. }
  unfold eager_iadd.
  assert (U : forall p, ufilter clike_cd (should_prepend_prefix_only clike_tables) p b = ufilter clike_cd clike_sp p b).
  { clear H. induction b as [|a b IH]; intros p; cbn [ufilter]; [reflexivity|].
    rewrite (E a (or_introl eq_refl)).
    destruct (is_unique clike_cd a && str_mem a p); [|f_equal]; apply IH; intros x Hx; apply E; right; exact Hx. }
  rewrite U.
  assert (S : forall x, In x (ufilter clike_cd clike_sp l b) -> should_prepend_prefix_only clike_tables x = clike_sp x)
    by (intros x Hx; apply E; eapply uf_sub; exact Hx).
  rewrite (filter_ext_in _ _ _ S).
  rewrite (filter_ext_in (fun a => negb (should_prepend_prefix_only clike_tables a)) (fun a => negb (clike_sp a)))
    by (intros x Hx; rewrite (S x Hx); reflexivity).
  reflexivity.
Qed.
Example bare_prefix_guard_satisfiable :
  forall a, In a [s2l "-Ia"; s2l "-DX"; s2l "-lfoo"; s2l "x"] -> str_mem a (prepend_prefixes clike_tables) = false.
Proof. intros a H. simpl in H. repeat (destruct H as [<-|H]; [vm_compute; reflexivity|]). contradiction. Qed.

(* arglist.py:190-191 as shipped: len() counts the pending duplicates *)
Theorem len_unflushed_refuted :
  exists b, let s := iadd clike_cd clike_sp (init []) b in len_unflushed s <> length (abs clike_cd s).
Proof. exists [s2l "-Ia"; s2l "-Ia"]. vm_compute. discriminate. Qed.

(* arglist.py:323-328 as shipped: == looks at the other operand's stale container *)
Definition clike_cfg : cfg := mkcfg clike_cd clike_sp (always_dedup_args clike_tables) true false [].
Theorem eq_other_unflushed_refuted :
  exists l b0 b, eq_other_unflushed clike_cfg (init l) b0 b <> str_list_eqb l (eager_iadd clike_cd clike_sp b0 b).
Proof. exists [s2l "-Ia"], [], [s2l "-Ia"]. vm_compute. discriminate. Qed.
Theorem eq_other_unflushed_partial l b0 :
  eq_other_unflushed clike_cfg (init l) b0 [] = str_list_eqb l (eager_iadd clike_cd clike_sp b0 []).
Proof.
  unfold eq_other_unflushed. cbn [c_cd c_sp clike_cfg].
  rewrite (flush_abs clike_cd clike_sp (init l) (inv_init _ _ l)), abs_init.
  unfold eager_iadd. cbn [ufilter filter keep_first app cont init iadd fold_left].
  rewrite kl_nil, app_nil_r. rewrite filter_all; [reflexivity|]. intros a _. rewrite ob_nil. reflexivity.
Qed.

(* ------------------------------------------------------------------ to_native *)
Lemma ins_nth_split l k v : exists A B, l = A ++ B /\ ins_nth l k v = A ++ v :: B.
Proof.
  revert k. induction l as [|x l IH]; intros k.
  - exists [], []. destruct k; split; reflexivity.
  - destruct k as [|k]; [exists [], (x :: l); split; reflexivity|].
    destruct (IH k) as [A [B [E1 E2]]]. exists (x :: A), B. simpl. rewrite <- E1, E2. split; reflexivity.
Qed.
Lemma ins_nth_0 l v : ins_nth l 0 v = v :: l.
Proof. destruct l; reflexivity. Qed.
Lemma ins_ins l : forall g e x y, (g <= e)%nat -> (g <= length l)%nat ->
  exists A B C, l = A ++ B ++ C /\ ins_nth (ins_nth l e x) g y = A ++ y :: B ++ x :: C.
Proof.
  induction l as [|a l IH]; intros g e x y Hge Hgl.
  - simpl in Hgl. assert (g = 0%nat) by lia. subst g. exists [], [], [].
    destruct e; split; reflexivity.
  - destruct g as [|g].
    + destruct (ins_nth_split (a :: l) e x) as [B [C [E1 E2]]].
      exists [], B, C. split; [exact E1|].
      rewrite ins_nth_0, E2. reflexivity.
    + destruct e as [|e]; [lia|]. simpl in Hgl.
      destruct (IH g e x y) as [A [B [C [E1 E2]]]]; [lia | lia |].
      exists (a :: A), B, C. simpl. rewrite E2, <- E1. split; reflexivity.
Qed.

Lemma group_scan_bound l : forall i gs ge, (0 <= i)%Z ->
  let r := group_scan l i gs ge in
  (fst r = gs \/ (i <= fst r < i + Z.of_nat (length l))%Z).
Proof.
  induction l as [|a l IH]; intros i gs ge Hi; cbn [group_scan fst length]; [left; reflexivity|].
  destruct (group_flag a).
  - destruct (IH (i + 1)%Z (if (gs <? 0)%Z then i else gs) i) as [H|H]; [lia| |right; lia].
    rewrite H. destruct (gs <? 0)%Z; [right; lia | left; reflexivity].
  - destruct (IH (i + 1)%Z gs ge) as [H|H]; [lia | left; exact H | right; lia].
Qed.

(* clike.py:88-100: the two group markers are the only elements inserted, start before end;
   every other element keeps its place and order *)
Theorem add_groups_only_inserts l :
  add_groups l = l \/
  exists A B C, l = A ++ B ++ C /\ add_groups l = A ++ start_group :: B ++ end_group :: C.
Proof.
  unfold add_groups. pose proof (group_scan_bound l 0 (-1) (-1) ltac:(lia)) as Hb.
  destruct (group_scan l 0 (-1) (-1)) as [gs ge]. cbn [fst] in Hb.
  destruct ((gs <? ge)%Z && (0 <=? gs)%Z) eqn:C; [|left; reflexivity]. right.
  apply andb_true_iff in C. destruct C as [C1 C2]. apply Z.ltb_lt in C1. apply Z.leb_le in C2.
  destruct Hb as [Hb|Hb]; [lia|].
  unfold py_insert.
  destruct (0 <=? ge + 1)%Z eqn:E1; [|apply Z.leb_gt in E1; lia].
  assert (E2 : (0 <=? gs)%Z = true) by (apply Z.leb_le; lia). rewrite E2.
  apply ins_ins; lia.
Qed.

Inductive subseq : list str -> list str -> Prop :=
| sub_nil : subseq [] []
| sub_skip x l1 l2 : subseq l1 l2 -> subseq l1 (x :: l2)
| sub_keep x l1 l2 : subseq l1 l2 -> subseq (x :: l1) (x :: l2).
Lemma subseq_refl l : subseq l l.
Proof. induction l; constructor; assumption. Qed.
Lemma subseq_trans a b c : subseq a b -> subseq b c -> subseq a c.
Proof.
  intros H1 H2. revert a H1. induction H2; intros a H1.
  - exact H1.
  - constructor. apply IHsubseq. exact H1.
  - inversion H1; subst; [constructor; apply IHsubseq; assumption | constructor; apply IHsubseq; assumption].
Qed.
Lemma del_nth_subseq l : forall k, subseq (del_nth l k) l.
Proof.
  induction l as [|x l IH]; intros k; simpl; [destruct k; constructor|].
  destruct k; [constructor; apply subseq_refl | constructor; apply IH].
Qed.
Lemma pop_all_subseq idx : forall l, subseq (fst (pop_all l idx)) l.
Proof.
  induction idx as [|i idx IH]; intros l; simpl; [apply subseq_refl|].
  destruct (i <? length l)%nat; [|apply subseq_refl].
  eapply subseq_trans; [apply IH | apply del_nth_subseq].
Qed.
(* clike.py:102-120: stripping default include directories only removes elements *)
Theorem strip_default_only_removes dd l : subseq (fst (strip_default dd l)) l.
Proof. unfold strip_default. destruct dd; [apply subseq_refl | apply pop_all_subseq]. Qed.
